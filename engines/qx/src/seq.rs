//! Sequential explicit-state exploration of the work-steal queues (C04, C05, C06 and the
//! sequential half of C03). The repository's queue sources are imported textually and run
//! against inspecting wrappers of the real st3 / crossbeam types (see shim_seq.rs).
use crate::ordered::{Ordered, OrderedLocalQueue, OrderedWorkStealQueue};
use crate::plain::{LocalQueue, WorkStealQueue};
use crate::report::Report;
use crate::shim::{self, Ev};
use serde_json::{json, Value};
use std::collections::{BTreeMap, HashMap, HashSet, VecDeque};
use std::time::{Duration, Instant};

pub const BUDGET: u64 = 20_000;

#[derive(Clone, PartialEq, Eq, Hash)]
pub struct It {
    pub id: u32,
    pub prio: i64,
}

impl std::fmt::Debug for It {
    fn fmt(&self, f: &mut std::fmt::Formatter<'_>) -> std::fmt::Result {
        write!(f, "{}@{}", self.id, self.prio)
    }
}

impl Ordered for It {
    fn priority(&self) -> Option<i64> {
        Some(self.prio)
    }
}

fn parse_item(s: &str) -> (u32, i64) {
    let (a, b) = s.split_once('@').expect("item");
    (a.parse().unwrap(), b.parse().unwrap())
}

#[derive(Clone, Debug, PartialEq, Eq, Hash)]
pub enum Op {
    Push { q: usize, p: i64 },
    Pop { q: usize, start: usize },
    GPush { p: i64 },
    GPop,
}

impl Op {
    pub fn to_json(&self) -> Value {
        match self {
            Op::Push { q, p } => json!(format!("push(L{q},prio {p})")),
            Op::Pop { q, start } => json!(format!("pop(L{q},start {start})")),
            Op::GPush { p } => json!(format!("gpush(prio {p})")),
            Op::GPop => json!("gpop"),
        }
    }
    pub fn from_json(v: &Value) -> Option<Op> {
        let s = v.as_str()?;
        let num = |t: &str| -> Option<i64> { t.trim().parse().ok() };
        if s == "gpop" {
            return Some(Op::GPop);
        }
        if let Some(r) = s.strip_prefix("push(L") {
            let (q, p) = r.trim_end_matches(')').split_once(",prio ")?;
            return Some(Op::Push { q: num(q)? as usize, p: num(p)? });
        }
        if let Some(r) = s.strip_prefix("pop(L") {
            let (q, st) = r.trim_end_matches(')').split_once(",start ")?;
            return Some(Op::Pop { q: num(q)? as usize, start: num(st)? as usize });
        }
        if let Some(r) = s.strip_prefix("gpush(prio ") {
            return Some(Op::GPush { p: num(r.trim_end_matches(')'))? });
        }
        None
    }
}

#[derive(Clone, Debug)]
pub struct Cfg {
    pub ordered: bool,
    pub locals: usize,
    pub cap: usize,
    pub prios: Vec<i64>,
    /// pops issued on the (empty) local 0 before the history starts, to bring its tick near 61
    pub pretick: u32,
}

impl Cfg {
    pub fn to_json(&self) -> Value {
        json!({"queue": if self.ordered { "ordered" } else { "plain" }, "locals": self.locals, "capacity": self.cap,
            "priorities": self.prios.iter().map(|p| p.to_string()).collect::<Vec<_>>(), "pretick": self.pretick})
    }
    pub fn from_json(v: &Value) -> Option<Cfg> {
        Some(Cfg {
            ordered: v.get("queue")?.as_str()? == "ordered",
            locals: v.get("locals")?.as_u64()? as usize,
            cap: v.get("capacity")?.as_u64()? as usize,
            prios: v.get("priorities")?.as_array()?.iter().map(|p| p.as_str()?.parse().ok()).collect::<Option<Vec<i64>>>()?,
            pretick: v.get("pretick")?.as_u64()? as u32,
        })
    }
    pub fn ops(&self) -> Vec<Op> {
        let mut v = Vec::new();
        for q in 0..self.locals {
            for p in &self.prios {
                v.push(Op::Push { q, p: *p });
            }
        }
        for q in 0..self.locals {
            // the random start of the steal scan only matters with >= 3 local queues
            for start in 0..(if self.locals >= 3 { self.locals } else { 1 }) {
                v.push(Op::Pop { q, start });
            }
        }
        for p in &self.prios {
            v.push(Op::GPush { p: *p });
        }
        v.push(Op::GPop);
        v
    }
}

enum Q {
    Plain(*mut WorkStealQueue<It>, Vec<LocalQueue<'static, It>>),
    Ordered(*mut OrderedWorkStealQueue<It>, Vec<OrderedLocalQueue<'static, It>>),
}

impl Q {
    fn new(cfg: &Cfg) -> Q {
        if cfg.ordered {
            let b = Box::into_raw(Box::new(OrderedWorkStealQueue::<It>::new(cfg.locals, cfg.cap)));
            let r: &'static OrderedWorkStealQueue<It> = unsafe { &*b };
            Q::Ordered(b, (0..cfg.locals).map(|_| r.local_queue()).collect())
        } else {
            let b = Box::into_raw(Box::new(WorkStealQueue::<It>::new(cfg.locals, cfg.cap)));
            let r: &'static WorkStealQueue<It> = unsafe { &*b };
            Q::Plain(b, (0..cfg.locals).map(|_| r.local_queue()).collect())
        }
    }
    fn apply(&self, op: &Op, item: Option<It>) -> Option<It> {
        match (self, op) {
            (Q::Plain(_, l), Op::Push { q, .. }) => {
                l[*q].push(item.unwrap());
                None
            }
            (Q::Ordered(_, l), Op::Push { q, .. }) => {
                l[*q].push(item.unwrap());
                None
            }
            (Q::Plain(_, l), Op::Pop { q, .. }) => l[*q].pop(),
            (Q::Ordered(_, l), Op::Pop { q, .. }) => l[*q].pop(),
            (Q::Plain(g, _), Op::GPush { .. }) => {
                unsafe { &**g }.push(item.unwrap());
                None
            }
            (Q::Ordered(g, _), Op::GPush { .. }) => {
                unsafe { &**g }.push(item.unwrap());
                None
            }
            (Q::Plain(g, _), Op::GPop) => unsafe { &**g }.pop(),
            (Q::Ordered(g, _), Op::GPop) => unsafe { &**g }.pop(),
        }
    }
    fn shared_len(&self) -> usize {
        match self {
            Q::Plain(g, _) => unsafe { &**g }.len(),
            Q::Ordered(g, _) => unsafe { &**g }.len(),
        }
    }
    fn local_lens(&self) -> Vec<usize> {
        match self {
            Q::Plain(_, l) => l.iter().map(|x| x.len()).collect(),
            Q::Ordered(_, l) => l.iter().map(|x| x.local_len()).collect(),
        }
    }
    /// free the queue (it must be empty), or leak it after a hang
    fn dispose(self, leak: bool) {
        if leak {
            std::mem::forget(self);
            return;
        }
        match self {
            Q::Plain(g, l) => {
                drop(l);
                drop(unsafe { Box::from_raw(g) });
            }
            Q::Ordered(g, l) => {
                drop(l);
                drop(unsafe { Box::from_raw(g) });
            }
        }
    }
}

/// Which shim containers make up the shared queue / local queue i.
/// plain: container 0 = injector, 1..=n = workers. ordered: map 0 = shared, map 1+i = local i.
fn queue_of(cfg: &Cfg, c: &shim::Container) -> usize {
    // 0 = shared, 1+i = local i
    if cfg.ordered {
        c.map.expect("ordered container without map")
    } else {
        c.id
    }
}

pub struct Snapshot {
    /// queue index -> items (dbg, seq) in container order
    pub queues: BTreeMap<usize, Vec<(String, u64)>>,
}

fn snapshot(cfg: &Cfg) -> Snapshot {
    shim::with(|x| {
        let mut queues: BTreeMap<usize, Vec<(String, u64)>> = BTreeMap::new();
        for q in 0..=cfg.locals {
            let _ = queues.insert(q, Vec::new());
        }
        let mut cs: Vec<&shim::Container> = x.containers.iter().collect();
        cs.sort_by_key(|c| (c.key, c.id));
        for c in cs {
            queues.get_mut(&queue_of(cfg, c)).unwrap().extend(c.items.iter().cloned());
        }
        Snapshot { queues }
    })
}

#[derive(Debug, Clone)]
pub struct Viol {
    pub property: &'static str,
    pub clause: String,
    pub class: String,
    pub detail: String,
}

pub struct Run {
    pub key: String,
    pub viol: Option<Viol>,
    pub hang: bool,
    /// API-level observations, for conformance with the real crate
    pub obs: Vec<String>,
    pub witnesses: Vec<&'static str>,
}

fn call<R>(f: impl FnOnce() -> R) -> Result<R, ()> {
    match std::panic::catch_unwind(std::panic::AssertUnwindSafe(f)) {
        Ok(r) => Ok(r),
        Err(e) => {
            let is_budget = e.downcast_ref::<String>().is_some_and(|s| s.contains(shim::BUDGET_PANIC))
                || e.downcast_ref::<&str>().is_some_and(|s| s.contains(shim::BUDGET_PANIC));
            if is_budget {
                Err(())
            } else {
                std::panic::resume_unwind(e)
            }
        }
    }
}

/// Execute `hist` from scratch on a fresh queue, evaluating all oracles on the LAST operation
/// (earlier ones were judged when their own state was visited) and, if `probe_drain`, the drain
/// probe on the state reached.
pub fn run_history(cfg: &Cfg, hist: &[Op], judge_all: bool) -> Run {
    shim::reset(BUDGET);
    let q = Q::new(cfg);
    let mut obs: Vec<String> = Vec::new();
    let mut witnesses: Vec<&'static str> = Vec::new();
    let mut next_id = 0u32;
    let mut returned: HashSet<u32> = HashSet::new();
    let mut pushed: HashSet<u32> = HashSet::new();
    let mut pops: Vec<u32> = vec![0; cfg.locals];
    let mut viol: Option<Viol> = None;
    for _ in 0..cfg.pretick {
        let _ = q.apply(&Op::Pop { q: 0, start: 0 }, None);
        pops[0] += 1;
    }
    let n = hist.len();
    'ops: for (k, op) in hist.iter().enumerate() {
        let judge = judge_all || k + 1 == n;
        let before = snapshot(cfg);
        let ev0 = shim::with(|x| {
            x.ticks = 0;
            x.choices.clear();
            x.choices_asked.clear();
            x.events.len()
        });
        let item = match op {
            Op::Push { p, .. } | Op::GPush { p } => {
                next_id += 1;
                let _ = pushed.insert(next_id);
                Some(It { id: next_id, prio: *p })
            }
            Op::Pop { start, .. } => {
                shim::with(|x| x.choices.push_back(*start));
                None
            }
            Op::GPop => None,
        };
        if let Op::Pop { q: i, .. } = op {
            pops[*i] += 1;
        }
        let at = |w: String| format!("op #{k} {}: {w}", op.to_json());
        let r = call(|| q.apply(op, item));
        let ret = match r {
            Ok(r) => r,
            Err(()) => {
                obs.push("HANG".into());
                viol = Some(Viol {
                    property: "C04",
                    clause: "operation-terminates".into(),
                    class: match op { Op::Push { .. } => "local-push", Op::Pop { .. } => "local-pop", Op::GPush { .. } => "shared-push", Op::GPop => "shared-pop" }.into(),
                    detail: at(format!("did not return within {BUDGET} container operations (a normal call needs < 100)")),
                });
                q.dispose(true);
                return Run { key: String::new(), viol, hang: true, obs, witnesses };
            }
        };
        obs.push(match &ret { Some(x) => format!("{x:?}"), None => "-".into() });
        obs.push(format!("len={} local={:?}", q.shared_len(), q.local_lens()));
        let (events, mismatch, asked) = shim::with(|x| (x.events[ev0..].to_vec(), x.shadow_mismatch.clone(), x.choices_asked.len()));
        if events.iter().any(|e| matches!(e, Ev::Move { .. })) {
            witnesses.push("steal_moved_items");
        }
        if let Some(Ev::Dropped { item, .. }) = events.iter().find(|e| matches!(e, Ev::Dropped { .. })) {
            if judge {
                viol = Some(Viol { property: "C03", clause: "no-item-lost".into(), class: "sequential".into(), detail: at(format!("item {item} was destroyed inside the queue without ever being returned")) });
                break 'ops;
            }
        }
        if matches!(op, Op::Push { .. }) && events.iter().any(|e| matches!(e, Ev::Push { c, .. } if shim::with(|x| queue_of(cfg, &x.containers[*c])) == 0)) {
            witnesses.push("overflow_to_shared");
        }
        if asked > 0 && cfg.locals >= 3 {
            witnesses.push("steal_start_choice_consumed");
        }
        if !judge {
            if let Some(x) = &ret { let _ = returned.insert(x.id); }
            continue;
        }
        if let Some(m) = mismatch {
            viol = Some(Viol { property: "C05", clause: "container-fifo-order".into(), class: "-".into(), detail: at(m) });
            break 'ops;
        }
        // ---- C03 (sequential half): never twice, shared len() = true count
        if let Some(x) = &ret {
            if !returned.insert(x.id) || !pushed.contains(&x.id) {
                viol = Some(Viol { property: "C03", clause: "item-popped-at-most-once".into(), class: "sequential".into(), detail: at(format!("returned {x:?} which was already returned or never pushed")) });
                break 'ops;
            }
        }
        let after = snapshot(cfg);
        let true_shared = after.queues[&0].len();
        if q.shared_len() != true_shared {
            viol = Some(Viol { property: "C03", clause: "shared-len-equals-items-held".into(), class: "sequential".into(), detail: at(format!("shared queue reports len()={} but holds {true_shared} items", q.shared_len())) });
            break 'ops;
        }
        // ---- C05: while no more items are queued than the local capacity, the local queue keeps
        // them (a push into a local queue holding fewer items than its capacity must not spill)
        if let Op::Push { q: i, .. } = op {
            let held = before.queues[&(1 + *i)].len();
            let spilled = after.queues[&0].len() > before.queues[&0].len();
            if held < cfg.cap && spilled {
                viol = Some(Viol { property: "C05", clause: "no-spill-below-local-capacity".into(), class: if cfg.ordered { "ordered" } else { "plain" }.into(), detail: at(format!("local queue {i} held {held} item(s), its capacity is {}, yet the push moved work to the shared queue (which reorders it behind local work)", cfg.cap)) });
                break 'ops;
            }
        }
        // ---- C05: priority order within the queue the item was taken from, FIFO among equals
        if let (Some(x), true) = (&ret, matches!(op, Op::Pop { .. } | Op::GPop)) {
            let xs = format!("{x:?}");
            // the container the returned item finally came out of, and the entry sequence number
            // it had in that queue
            let src = events.iter().rev().find_map(|e| match e { Ev::Pop { c, item, seq } if *item == xs => Some((*c, *seq)), _ => None });
            if let Some((src, xseq)) = src {
                let qi = shim::with(|z| queue_of(cfg, &z.containers[src]));
                for (d, s) in &after.queues[&qi] {
                    let (_, yp) = parse_item(d);
                    // "pushed earlier to that same queue": y entered this queue before x did
                    let earlier = *s < xseq;
                    if earlier && yp < x.prio {
                        viol = Some(Viol { property: "C05", clause: "higher-priority-first".into(), class: if qi == 0 { "shared-queue" } else { "local-queue" }.into(), detail: at(format!("returned {x:?} from queue {} while the strictly higher-priority item {d}, pushed earlier to the same queue, is still waiting", qname(qi))) });
                        break 'ops;
                    }
                    if earlier && yp == x.prio {
                        viol = Some(Viol { property: "C05", clause: "fifo-among-equal-priority".into(), class: if qi == 0 { "shared-queue" } else { "local-queue" }.into(), detail: at(format!("returned {x:?} from queue {} before the older equal-priority item {d}", qname(qi))) });
                        break 'ops;
                    }
                }
            }
        }
        // ---- C06(b): an idle local queue obtains waiting work
        if let Op::Pop { q: i, .. } = op {
            let own_empty = before.queues[&(1 + *i)].is_empty();
            let elsewhere: usize = before.queues.iter().filter(|(k, _)| **k != 1 + *i).map(|(_, v)| v.len()).sum();
            if own_empty && elsewhere > 0 {
                witnesses.push("idle_pop_with_work_elsewhere");
                if ret.is_none() {
                    let wh = if !before.queues[&0].is_empty() { "shared-queue" } else { "sibling-queue" };
                    viol = Some(Viol { property: "C06", clause: "idle-queue-finds-waiting-work".into(), class: wh.into(), detail: at(format!("local queue {i} is empty, {elsewhere} item(s) wait elsewhere ({}), yet pop() reported empty (cached local lengths {:?})", describe(&before), q.local_lens())) });
                    break 'ops;
                }
            }
        }
    }
    // canonical key of the state reached
    let snap = snapshot(cfg);
    let mut relabel: HashMap<u32, usize> = HashMap::new();
    let mut key = String::new();
    for (qi, items) in &snap.queues {
        key.push_str(&format!("Q{qi}["));
        for (d, _) in items {
            let (id, p) = parse_item(d);
            let n = relabel.len();
            let l = *relabel.entry(id).or_insert(n);
            key.push_str(&format!("{l}@{p},"));
        }
        key.push(']');
    }
    key.push_str(&format!("|len{}|ll{:?}|t{:?}", q.shared_len(), q.local_lens(), pops.iter().map(|p| p % 61).collect::<Vec<_>>()));
    // hidden structure: which per-priority containers exist in which queue, with which capacity
    let mut structure: Vec<(usize, Option<i64>, usize)> = shim::with(|x| x.containers.iter().map(|c| (queue_of(cfg, c), c.key, c.cap)).collect());
    structure.sort_unstable();
    key.push_str(&format!("|c{structure:?}"));
    if let Some(v) = viol {
        q.dispose(true);
        return Run { key, viol: Some(v), hang: false, obs, witnesses };
    }
    // ---- drain probe (C03): once everything stops, draining every queue returns exactly the
    // items not yet popped (nothing lost, nothing stranded, nothing twice)
    shim::with(|x| { x.ticks = 0; x.budget = BUDGET * 20; });
    let expect: HashSet<u32> = snap.queues.values().flatten().map(|(d, _)| parse_item(d).0).collect();
    let mut drained: Vec<u32> = Vec::new();
    let dr = call(|| {
        loop {
            let mut any = false;
            for i in 0..cfg.locals {
                while let Some(x) = q.apply(&Op::Pop { q: i, start: 0 }, None) {
                    drained.push(x.id);
                    any = true;
                }
            }
            while let Some(x) = q.apply(&Op::GPop, None) {
                drained.push(x.id);
                any = true;
            }
            if !any {
                break;
            }
        }
    });
    let mut viol = None;
    if dr.is_err() {
        viol = Some(Viol { property: "C04", clause: "operation-terminates".into(), class: "drain".into(), detail: format!("draining the state reached did not terminate within {} container operations", BUDGET * 20) });
        q.dispose(true);
        return Run { key, viol, hang: true, obs, witnesses };
    }
    let dset: HashSet<u32> = drained.iter().copied().collect();
    // conservation, independent of the shadow: everything ever pushed was returned or is drained now
    let accounted: HashSet<u32> = returned.union(&dset).copied().collect();
    if accounted != pushed {
        let lost: Vec<&u32> = pushed.difference(&accounted).collect();
        viol = Some(Viol { property: "C03", clause: "drain-returns-exactly-unpopped-items".into(), class: "sequential".into(), detail: format!("items {lost:?} were pushed but neither returned by a pop nor found when draining every queue") });
        q.dispose(true);
        return Run { key, viol, hang: false, obs, witnesses };
    }
    if dset.len() != drained.len() || dset != expect {
        let lost: Vec<&u32> = expect.difference(&dset).collect();
        let extra: Vec<&u32> = dset.difference(&expect).collect();
        viol = Some(Viol { property: "C03", clause: "drain-returns-exactly-unpopped-items".into(), class: "sequential".into(), detail: format!("draining every queue returned {drained:?}; items never returned: {lost:?}; unexpected: {extra:?}") });
        q.dispose(true);
        return Run { key, viol, hang: false, obs, witnesses };
    }
    q.dispose(false);
    Run { key, viol, hang: false, obs, witnesses }
}

fn qname(qi: usize) -> String {
    if qi == 0 { "shared".into() } else { format!("L{}", qi - 1) }
}

fn describe(s: &Snapshot) -> String {
    s.queues.iter().map(|(k, v)| format!("{}={:?}", qname(*k), v.iter().map(|(d, _)| d.as_str()).collect::<Vec<_>>())).collect::<Vec<_>>().join(" ")
}

pub fn hist_json(h: &[Op]) -> Value {
    json!(h.iter().map(Op::to_json).collect::<Vec<_>>())
}

pub struct Explored {
    pub states: u64,
    pub transitions: u64,
    pub execs: u64,
    pub depth_done: usize,
    pub histories: Vec<Vec<Op>>,
}

/// BFS with canonical-state dedup over one configuration.
pub fn bfs(cfg: &Cfg, depth: usize, deadline: Instant, rep: &mut Report, scen: &str, keep_histories: bool) -> Explored {
    let mut seen: HashSet<String> = HashSet::new();
    let mut frontier: VecDeque<Vec<Op>> = VecDeque::from([vec![]]);
    let mut ex = Explored { states: 0, transitions: 0, execs: 0, depth_done: 0, histories: Vec::new() };
    let ops = cfg.ops();
    let mut cur_depth = 0;
    while let Some(h) = frontier.pop_front() {
        if h.len() > cur_depth {
            ex.depth_done = cur_depth;
            cur_depth = h.len();
        }
        if Instant::now() > deadline {
            rep.cap(&format!("{}: wall budget hit at depth {}; depths <= {} are complete", cfg.to_json(), h.len(), ex.depth_done));
            return ex;
        }
        let run = run_history(cfg, &h, false);
        if std::env::var_os("QXTRACE").is_some() {
            eprintln!("{} -> key {} viol {:?} fresh {}", hist_json(&h), run.key, run.viol.as_ref().map(|v| &v.clause), !seen.contains(&run.key));
        }
        ex.execs += 1;
        if !h.is_empty() {
            ex.transitions += 1;
        }
        for w in &run.witnesses {
            rep.witness(w);
        }
        if let Some(v) = run.viol {
            let sig = format!("{scen}/{}/{}:{}", v.clause, if cfg.ordered { "ordered" } else { "plain" }, v.class);
            rep.violation_for(v.property, &sig, format!("{} history {}: {}", cfg.to_json(), hist_json(&h), v.detail),
                json!({"engine":"qsx","scenario":scen,"config":cfg.to_json(),"history":hist_json(&h)}));
            continue;
        }
        if keep_histories {
            ex.histories.push(h.clone());
        }
        if seen.insert(run.key.clone()) {
            ex.states += 1;
            if h.len() >= 3 && rep.nontrivial.len() < 20000 {
                let _ = rep.nontrivial.insert(format!("{}{}", cfg.to_json(), run.key));
            }
            let _ = rep.outcomes.insert(run.key);
            if h.len() < depth {
                for op in &ops {
                    let mut n = h.clone();
                    n.push(op.clone());
                    frontier.push_back(n);
                }
            }
        }
    }
    ex.depth_done = depth;
    ex
}

pub fn budget(tier: &str, quick: u64, thorough: u64) -> Instant {
    Instant::now() + Duration::from_secs(if tier == "thorough" { thorough } else { quick })
}
