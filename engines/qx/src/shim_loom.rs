//! loom build: the dependencies whose linearizability is trusted (crossbeam-deque's Injector,
//! crossbeam-skiplist's SkipMap, dashmap's DashMap) are replaced by linearizable shims on
//! `loom::sync::Mutex`, so that every operation on them is a scheduling point. st3 is NOT shimmed:
//! the real st3 is compiled with `--cfg st3_loom` and explored at every atomic access.
use loom::sync::Mutex;
use std::borrow::Borrow;
use std::collections::{BTreeMap, HashMap, VecDeque};
use std::fmt::Debug;
use std::hash::Hash;
use std::marker::PhantomData;
use std::sync::atomic::{AtomicIsize, AtomicUsize, Ordering};
use std::sync::Arc;

/// ground truth (plain std atomics, invisible to loom): items currently held by all injectors
pub static INJECTOR_ITEMS: AtomicIsize = AtomicIsize::new(0);
/// the value `choice()` returns in this execution (enumerated outside the model)
pub static CHOICE: AtomicUsize = AtomicUsize::new(0);

pub fn choice(n: usize) -> usize {
    CHOICE.load(Ordering::Relaxed) % n.max(1)
}

#[derive(Debug)]
pub enum Steal<T> {
    Success(T),
    #[allow(dead_code)]
    Retry,
    Empty,
}

pub struct Injector<T> {
    q: Mutex<VecDeque<T>>,
}

impl<T> Debug for Injector<T> {
    fn fmt(&self, f: &mut std::fmt::Formatter<'_>) -> std::fmt::Result {
        write!(f, "Injector")
    }
}

impl<T> Injector<T> {
    pub fn new() -> Self {
        Injector { q: Mutex::new(VecDeque::new()) }
    }
    pub fn push(&self, item: T) {
        let mut g = self.q.lock().unwrap();
        g.push_back(item);
        let _ = INJECTOR_ITEMS.fetch_add(1, Ordering::Relaxed);
    }
    pub fn is_empty(&self) -> bool {
        self.q.lock().unwrap().is_empty()
    }
    pub fn len(&self) -> usize {
        self.q.lock().unwrap().len()
    }
    pub fn steal(&self) -> Steal<T> {
        let mut g = self.q.lock().unwrap();
        match g.pop_front() {
            Some(x) => {
                let _ = INJECTOR_ITEMS.fetch_sub(1, Ordering::Relaxed);
                Steal::Success(x)
            }
            None => Steal::Empty,
        }
    }
}

pub struct SkipMap<K, V> {
    m: Mutex<BTreeMap<K, Arc<V>>>,
}

impl<K, V> Debug for SkipMap<K, V> {
    fn fmt(&self, f: &mut std::fmt::Formatter<'_>) -> std::fmt::Result {
        write!(f, "SkipMap")
    }
}

pub struct Entry<'a, K, V> {
    key: K,
    value: Arc<V>,
    _p: PhantomData<&'a ()>,
}

impl<K, V> Entry<'_, K, V> {
    pub fn key(&self) -> &K {
        &self.key
    }
    pub fn value(&self) -> &V {
        &self.value
    }
}

impl<K: Ord + Copy, V> SkipMap<K, V> {
    pub fn new() -> Self {
        SkipMap { m: Mutex::new(BTreeMap::new()) }
    }
    pub fn get_or_insert_with<F: FnOnce() -> V>(&self, key: K, f: F) -> Entry<'_, K, V> {
        let mut g = self.m.lock().unwrap();
        let v = g.entry(key).or_insert_with(|| Arc::new(f())).clone();
        Entry { key, value: v, _p: PhantomData }
    }
    pub fn get(&self, key: &K) -> Option<Entry<'_, K, V>> {
        let g = self.m.lock().unwrap();
        g.get(key).map(|v| Entry { key: *key, value: v.clone(), _p: PhantomData })
    }
    pub fn is_empty(&self) -> bool {
        self.m.lock().unwrap().is_empty()
    }
    pub fn len(&self) -> usize {
        self.m.lock().unwrap().len()
    }
    pub fn iter(&self) -> std::vec::IntoIter<Entry<'_, K, V>> {
        let g = self.m.lock().unwrap();
        g.iter().map(|(k, v)| Entry { key: *k, value: v.clone(), _p: PhantomData }).collect::<Vec<_>>().into_iter()
    }
}

impl<'a, K: Ord + Copy, V> IntoIterator for &'a SkipMap<K, V> {
    type Item = Entry<'a, K, V>;
    type IntoIter = std::vec::IntoIter<Entry<'a, K, V>>;
    fn into_iter(self) -> Self::IntoIter {
        self.iter()
    }
}

// ------------------------------------------------------------------------------------------

pub struct DashMap<K, V> {
    m: Mutex<HashMap<K, V>>,
}

impl<K, V> Default for DashMap<K, V> {
    fn default() -> Self {
        DashMap { m: Mutex::new(HashMap::new()) }
    }
}

impl<K, V> Debug for DashMap<K, V> {
    fn fmt(&self, f: &mut std::fmt::Formatter<'_>) -> std::fmt::Result {
        write!(f, "DashMap")
    }
}

pub struct Ref<V>(V);

impl<V> std::ops::Deref for Ref<V> {
    type Target = V;
    fn deref(&self) -> &V {
        &self.0
    }
}

impl<V> std::ops::DerefMut for Ref<V> {
    fn deref_mut(&mut self) -> &mut V {
        &mut self.0
    }
}

pub enum MapEntry<'a, K, V> {
    Slot(&'a DashMap<K, V>, K),
}

impl<K: Eq + Hash + Clone, V: Clone> MapEntry<'_, K, V> {
    /// atomic get-or-insert (mirrors dashmap's entry().or_insert_with())
    pub fn or_insert(self, v: V) -> Ref<V> {
        self.or_insert_with(|| v)
    }
    pub fn or_default(self) -> Ref<V>
    where
        V: Default,
    {
        self.or_insert_with(V::default)
    }
    pub fn or_insert_with<F: FnOnce() -> V>(self, f: F) -> Ref<V> {
        let MapEntry::Slot(m, k) = self;
        let mut g = m.m.lock().unwrap();
        Ref(g.entry(k).or_insert_with(f).clone())
    }
    /// unconditional set (mirrors dashmap's entry().insert())
    pub fn insert(self, v: V) -> Ref<V> {
        let MapEntry::Slot(m, k) = self;
        let mut g = m.m.lock().unwrap();
        let _ = g.insert(k, v.clone());
        Ref(v)
    }
    pub fn and_modify<F: FnOnce(&mut V)>(self, f: F) -> Self {
        let MapEntry::Slot(m, k) = self;
        if let Some(v) = m.m.lock().unwrap().get_mut(&k) {
            f(v);
        }
        MapEntry::Slot(m, k)
    }
}

impl<K: Eq + Hash + Clone, V: Clone> DashMap<K, V> {
    pub fn get<Q: ?Sized + Eq + Hash>(&self, k: &Q) -> Option<Ref<V>>
    where
        K: Borrow<Q>,
    {
        self.m.lock().unwrap().get(k).cloned().map(Ref)
    }
    pub fn get_mut<Q: ?Sized + Eq + Hash>(&self, k: &Q) -> Option<Ref<V>>
    where
        K: Borrow<Q>,
    {
        self.m.lock().unwrap().get(k).cloned().map(Ref)
    }
    pub fn insert(&self, k: K, v: V) -> Option<V> {
        self.m.lock().unwrap().insert(k, v)
    }
    pub fn remove<Q: ?Sized + Eq + Hash>(&self, k: &Q) -> Option<(K, V)>
    where
        K: Borrow<Q>,
    {
        self.m.lock().unwrap().remove_entry(k)
    }
    pub fn entry(&self, k: K) -> MapEntry<'_, K, V> {
        MapEntry::Slot(self, k)
    }
    // (not used by the imported sources today; present so that a changed source that reaches for
    // them still builds and is explored instead of failing the build)
    pub fn contains_key<Q: ?Sized + Eq + Hash>(&self, k: &Q) -> bool
    where
        K: Borrow<Q>,
    {
        self.m.lock().unwrap().contains_key(k)
    }
    pub fn len(&self) -> usize {
        self.m.lock().unwrap().len()
    }
    pub fn is_empty(&self) -> bool {
        self.m.lock().unwrap().is_empty()
    }
    pub fn clear(&self) {
        self.m.lock().unwrap().clear();
    }
    pub fn remove_if<Q: ?Sized + Eq + Hash>(&self, k: &Q, f: impl FnOnce(&K, &V) -> bool) -> Option<(K, V)>
    where
        K: Borrow<Q>,
    {
        let mut g = self.m.lock().unwrap();
        let hit = g.get_key_value(k).is_some_and(|(kk, v)| f(kk, v));
        if hit { g.remove_entry(k) } else { None }
    }
}
