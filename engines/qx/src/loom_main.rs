//! loom scenarios: all interleavings (up to a preemption bound) of small thread programs over the
//! repository's queue / bean-factory source. Every scenario runs in its own subprocess
//! (`qx loom-one ...`) so that a loom failure (which panics, sometimes aborts) is an observation.
use crate::beans::BeanFactory;
use crate::ordered::{Ordered, OrderedLocalQueue, OrderedWorkStealQueue};
use crate::plain::{LocalQueue, WorkStealQueue};
use crate::report::Report;
use crate::shim;
use serde_json::{json, Value};
use std::collections::BTreeSet;
use std::sync::atomic::{AtomicU64, Ordering};
use std::sync::Mutex;
use std::time::{Duration, Instant};

#[derive(Clone, PartialEq, Eq)]
pub struct It {
    id: u32,
    prio: i64,
}

impl std::fmt::Debug for It {
    fn fmt(&self, f: &mut std::fmt::Formatter<'_>) -> std::fmt::Result {
        write!(f, "{}@{}", self.id, self.prio)
    }
}

impl Ordered for It {
    fn priority(&self) -> Option<i64> {
        Some(self.prio)
    }
}

#[derive(Clone, Copy, Debug)]
enum TOp {
    LPush(usize, u32),
    LPop(usize),
    GPush(u32),
    GPop,
    /// `LocalQueue::len()` / `OrderedLocalQueue::len()`: the total over all queues, from any thread
    Len(usize),
}

fn prio_of(id: u32) -> i64 {
    // ids 1,3,5.. priority 0; 2,4.. priority 1 (ties and a mix)
    i64::from(id % 2 == 0)
}

#[derive(Clone)]
struct QScn {
    name: &'static str,
    property: &'static str,
    what: &'static str,
    ordered: bool,
    locals: usize,
    cap: usize,
    pre: Vec<TOp>,
    threads: Vec<Vec<TOp>>,
    /// number of values of the random steal start to enumerate (1 = irrelevant)
    choices: usize,
    thorough_only: bool,
    /// witness class for signatures: which contract the harness itself respects
    class: &'static str,
}

fn qscn() -> Vec<QScn> {
    use TOp::*;
    let mut v = Vec::new();
    for ordered in [true, false] {
        let t = if ordered { "ordered" } else { "plain" };
        let mk = |name: &'static str, what, locals, cap, pre: Vec<TOp>, threads: Vec<Vec<TOp>>, choices, thorough_only| QScn {
            name, property: "C03", what, ordered, locals, cap, pre, threads, choices, thorough_only, class: "owner-only-locals",
        };
        let n = |o: &'static str, p: &'static str| if ordered { o } else { p };
        let _ = t;
        v.push(mk(n("c03.G1.ordered", "c03.G1.plain"), "push || push on the shared queue", 1, 2, vec![], vec![vec![GPush(1)], vec![GPush(2)]], 1, false));
        v.push(mk(n("c03.G2.ordered", "c03.G2.plain"), "push || pop on the shared queue", 1, 2, vec![GPush(1)], vec![vec![GPush(2)], vec![GPop]], 1, false));
        v.push(mk(n("c03.G3.ordered", "c03.G3.plain"), "owner overflow (cap 2, 3 pushes) || shared pop", 1, 2, vec![], vec![vec![LPush(0, 1), LPush(0, 3), LPush(0, 5)], vec![GPop]], 1, false));
        v.push(mk(n("c03.G4.ordered", "c03.G4.plain"), "owner pop || sibling steal", 2, 4, vec![LPush(0, 1), LPush(0, 3)], vec![vec![LPop(0)], vec![LPop(1)]], 1, false));
        v.push(mk(n("c03.G5.ordered", "c03.G5.plain"), "two thieves on one victim", 3, 4, vec![LPush(0, 1), LPush(0, 3), LPush(0, 5)], vec![vec![LPop(1)], vec![LPop(2)]], 3, false));
        v.push(mk(n("c03.G6.ordered", "c03.G6.plain"), "owner push+pop || thief", 2, 4, vec![LPush(0, 1)], vec![vec![LPush(0, 3), LPop(0)], vec![LPop(1)]], 1, false));
        v.push(mk(n("c03.G10.ordered", "c03.G10.plain"), "owner overflows a full queue || sibling steals from it", 2, 2, vec![LPush(0, 1), LPush(0, 3)], vec![vec![LPush(0, 5)], vec![LPop(1)]], 1, false));
        v.push(mk(n("c03.G11.ordered", "c03.G11.plain"), "owner overflows a full queue (cap 4) || two siblings steal from it", 3, 4, vec![LPush(0, 1), LPush(0, 3), LPush(0, 5), LPush(0, 7)], vec![vec![LPush(0, 9)], vec![LPop(1)], vec![LPop(2)]], 1, false));
        if ordered {
            v.push(mk("c03.G12.ordered", "another loop asks for the total length (pool.size()/is_empty()) while the owner pushes and a sibling steals", 3, 4, vec![LPush(0, 1), LPush(0, 3), LPush(0, 5), LPush(0, 7)], vec![vec![LPush(0, 9)], vec![LPop(1)], vec![Len(2)]], 1, false));
        }
        v.push(mk(n("c03.G7.ordered", "c03.G7.plain"), "3 threads: push, push, pop on shared", 1, 2, vec![], vec![vec![GPush(1)], vec![GPush(2)], vec![GPop]], 1, true));
        v.push(mk(n("c03.G8.ordered", "c03.G8.plain"), "owner overflow || thief || shared pop", 2, 2, vec![LPush(0, 1)], vec![vec![LPush(0, 3), LPush(0, 5)], vec![LPop(1)], vec![GPop]], 1, true));
        v.push(mk(n("c03.G9.ordered", "c03.G9.plain"), "mixed priorities: pushes of both priorities || pops", 1, 2, vec![GPush(2)], vec![vec![GPush(1), GPop], vec![GPush(4), GPop]], 1, true));
    }
    // C01 queue layer: the way the runtime uses ONE local queue handle from several threads
    // (submitters push into the event loop's task queue, the loop thread pops, a sibling steals)
    let c01 = |name: &'static str, what, locals, pre: Vec<TOp>, threads: Vec<Vec<TOp>>, thorough_only| QScn {
        name, property: "C01", what, ordered: true, locals, cap: 4, pre, threads, choices: 1, thorough_only, class: "submitter-uses-loop-local-queue",
    };
    v.push(c01("c01.S1", "two submitters push into the same loop's local task queue", 1, vec![], vec![vec![LPush(0, 1)], vec![LPush(0, 3)]], false));
    v.push(c01("c01.S2", "submitter pushes while the owning loop pops", 1, vec![LPush(0, 1)], vec![vec![LPush(0, 3)], vec![LPop(0)]], false));
    v.push(c01("c01.S3", "submitter pushes, sibling loop steals, owner pops", 2, vec![], vec![vec![LPush(0, 1)], vec![LPop(1)], vec![LPop(0)]], false));
    v.push(c01("c01.S4", "overflow: submitter pushes past capacity while a sibling pops the shared queue", 2, vec![LPush(0, 1), LPush(0, 3), LPush(0, 5), LPush(0, 7)], vec![vec![LPush(0, 2)], vec![LPop(1)]], true));
    v
}

enum Q {
    Plain(*mut WorkStealQueue<It>, Vec<LocalQueue<'static, It>>),
    Ordered(*mut OrderedWorkStealQueue<It>, Vec<OrderedLocalQueue<'static, It>>),
}

impl Q {
    fn new(ordered: bool, locals: usize, cap: usize) -> Q {
        if ordered {
            let b = Box::into_raw(Box::new(OrderedWorkStealQueue::<It>::new(locals, cap)));
            let r: &'static OrderedWorkStealQueue<It> = unsafe { &*b };
            Q::Ordered(b, (0..locals).map(|_| r.local_queue()).collect())
        } else {
            let b = Box::into_raw(Box::new(WorkStealQueue::<It>::new(locals, cap)));
            let r: &'static WorkStealQueue<It> = unsafe { &*b };
            Q::Plain(b, (0..locals).map(|_| r.local_queue()).collect())
        }
    }
    fn apply(&self, op: TOp) -> Option<u32> {
        let it = |id: u32| It { id, prio: prio_of(id) };
        match (self, op) {
            (Q::Plain(_, l), TOp::LPush(q, id)) => { l[q].push(it(id)); None }
            (Q::Ordered(_, l), TOp::LPush(q, id)) => { l[q].push(it(id)); None }
            (Q::Plain(_, l), TOp::LPop(q)) => l[q].pop().map(|x| x.id),
            (Q::Ordered(_, l), TOp::LPop(q)) => l[q].pop().map(|x| x.id),
            (Q::Plain(g, _), TOp::GPush(id)) => { unsafe { &**g }.push(it(id)); None }
            (Q::Ordered(g, _), TOp::GPush(id)) => { unsafe { &**g }.push(it(id)); None }
            (Q::Plain(g, _), TOp::GPop) => unsafe { &**g }.pop().map(|x| x.id),
            (Q::Ordered(g, _), TOp::GPop) => unsafe { &**g }.pop().map(|x| x.id),
            (Q::Plain(_, l), TOp::Len(q)) => { let _ = l[q].len(); None }
            (Q::Ordered(_, l), TOp::Len(q)) => { let _ = l[q].len(); None }
        }
    }
    fn shared_len(&self) -> usize {
        match self {
            Q::Plain(g, _) => unsafe { &**g }.len(),
            Q::Ordered(g, _) => unsafe { &**g }.len(),
        }
    }
    fn locals(&self) -> usize {
        match self {
            Q::Plain(_, l) => l.len(),
            Q::Ordered(_, l) => l.len(),
        }
    }
    fn dispose(self) {
        match self {
            Q::Plain(g, l) => { drop(l); drop(unsafe { Box::from_raw(g) }); }
            Q::Ordered(g, l) => { drop(l); drop(unsafe { Box::from_raw(g) }); }
        }
    }
}

struct SendPtr<T>(*const T);
unsafe impl<T> Send for SendPtr<T> {}
impl<T> Clone for SendPtr<T> {
    fn clone(&self) -> Self {
        SendPtr(self.0)
    }
}
impl<T> Copy for SendPtr<T> {}

static SCHEDULES: AtomicU64 = AtomicU64::new(0);
static OUTCOMES: Mutex<BTreeSet<String>> = Mutex::new(BTreeSet::new());
static FAILURE: Mutex<Option<String>> = Mutex::new(None);

fn queue_model(s: &QScn) {
    let _ = SCHEDULES.fetch_add(1, Ordering::Relaxed);
    shim::INJECTOR_ITEMS.store(0, Ordering::Relaxed);
    let q = Box::new(Q::new(s.ordered, s.locals, s.cap));
    let mut pushed: Vec<u32> = Vec::new();
    for op in &s.pre {
        if let TOp::LPush(_, id) | TOp::GPush(id) = op {
            pushed.push(*id);
        }
        let _ = q.apply(*op);
    }
    let ptr = SendPtr(&*q as *const Q);
    let mut handles = Vec::new();
    for ops in &s.threads {
        for op in ops {
            if let TOp::LPush(_, id) | TOp::GPush(id) = op {
                pushed.push(*id);
            }
        }
        let ops = ops.clone();
        handles.push(loom::thread::spawn(move || {
            let p = ptr;
            let q: &Q = unsafe { &*p.0 };
            let mut got = Vec::new();
            for op in ops {
                if let Some(id) = q.apply(op) {
                    got.push(id);
                }
            }
            got
        }));
    }
    let per_thread: Vec<Vec<u32>> = handles.into_iter().map(|h| h.join().unwrap()).collect();
    let mut popped: Vec<u32> = per_thread.iter().flatten().copied().collect();
    // (a) at most once
    let mut seen = BTreeSet::new();
    for id in &popped {
        assert!(seen.insert(*id) && pushed.contains(id), "ORACLE item-popped-at-most-once: item {id} was returned twice (or never pushed); per-thread results {per_thread:?}");
    }
    // (c) once all threads stopped, the shared queue's reported length equals what it holds
    let reported = q.shared_len();
    let held = shim::INJECTOR_ITEMS.load(Ordering::Relaxed);
    assert!(reported as isize == held, "ORACLE shared-len-equals-items-held: len() reports {reported} but the shared queue holds {held} item(s); per-thread results {per_thread:?}");
    // (b) draining every queue returns exactly the items not yet popped
    let mut drained = Vec::new();
    loop {
        let mut any = false;
        for i in 0..q.locals() {
            while let Some(id) = q.apply(TOp::LPop(i)) {
                drained.push(id);
                any = true;
            }
        }
        while let Some(id) = q.apply(TOp::GPop) {
            drained.push(id);
            any = true;
        }
        if !any {
            break;
        }
    }
    let left = shim::INJECTOR_ITEMS.load(Ordering::Relaxed);
    popped.extend(drained.iter().copied());
    let mut all = popped.clone();
    all.sort_unstable();
    let mut want = pushed.clone();
    want.sort_unstable();
    assert!(all == want && left == 0, "ORACLE drain-returns-exactly-unpopped-items: pushed {want:?}, popped+drained {all:?} (drained {drained:?}), {left} item(s) still stranded in the shared queue; per-thread results {per_thread:?}");
    OUTCOMES.lock().unwrap().insert(format!("{per_thread:?}|len{reported}"));
    Box::into_inner_compat(q).dispose();
}

trait BoxCompat<T> {
    fn into_inner_compat(b: Box<T>) -> T;
}
impl<T> BoxCompat<T> for Box<T> {
    fn into_inner_compat(b: Box<T>) -> T {
        *b
    }
}

// ------------------------------------------------------------------------------------------
// C26: bean factory

#[derive(Debug, Default)]
struct Probe {
    _pad: u64,
}

#[derive(Clone)]
struct BScn {
    name: &'static str,
    what: &'static str,
    threads: usize,
    /// 0 = get_or_default, 1 = init_bean (all threads), 2 = one init_bean + others get_or_default
    mode: u8,
    thorough_only: bool,
}

fn bscn() -> Vec<BScn> {
    vec![
        BScn { name: "c26.B1", what: "2 threads first-use get_or_default of one bean", threads: 2, mode: 0, thorough_only: false },
        BScn { name: "c26.B2", what: "init_bean || get_or_default of one bean", threads: 2, mode: 2, thorough_only: false },
        BScn { name: "c26.B5", what: "first use with a name held in a reusable buffer that is overwritten afterwards, then looked up again", threads: 1, mode: 3, thorough_only: false },
        BScn { name: "c26.B3", what: "3 threads first-use get_or_default of one bean", threads: 3, mode: 0, thorough_only: true },
        BScn { name: "c26.B4", what: "2 threads init_bean of one bean", threads: 2, mode: 1, thorough_only: true },
    ]
}

fn bean_model(s: &BScn) {
    let _ = SCHEDULES.fetch_add(1, Ordering::Relaxed);
    if s.mode == 3 {
        // the instance handed out first stays the one later lookups return, whatever the caller
        // does with the string it passed the name in
        let mut name = String::with_capacity(8);
        name.push('x');
        let first = std::ptr::from_ref(BeanFactory::get_or_default::<Probe>(&name)) as usize;
        name.clear();
        name.push('y');
        let other = std::ptr::from_ref(BeanFactory::get_or_default::<Probe>(&name)) as usize;
        let again = std::ptr::from_ref(BeanFactory::get_or_default::<Probe>("x")) as usize;
        let later = BeanFactory::get_bean::<Probe>("x").map_or(0, |p| std::ptr::from_ref(p) as usize);
        assert!(first == again && first == later && first != other,
            "ORACLE instance-stays-the-one-later-lookups-return: first lookup of \"x\" and a later lookup of \"x\" returned {} instance(s); bean \"y\" is {} one",
            if first == again && first == later { "the same" } else { "different" }, if first == other { "the same" } else { "another" });
        OUTCOMES.lock().unwrap().insert("sequential".into());
        return;
    }
    let mut hs = Vec::new();
    for t in 0..s.threads {
        let mode = s.mode;
        hs.push(loom::thread::spawn(move || -> usize {
            match (mode, t) {
                (1, _) | (2, 0) => {
                    BeanFactory::init_bean("x", Probe::default());
                    BeanFactory::get_bean::<Probe>("x").map_or(0, |p| std::ptr::from_ref(p) as usize)
                }
                _ => std::ptr::from_ref(BeanFactory::get_or_default::<Probe>("x")) as usize,
            }
        }));
    }
    let addrs: Vec<usize> = hs.into_iter().map(|h| h.join().unwrap()).collect();
    let later = BeanFactory::get_bean::<Probe>("x").map_or(0, |p| std::ptr::from_ref(p) as usize);
    let distinct: BTreeSet<usize> = addrs.iter().copied().collect();
    assert!(distinct.len() == 1 && addrs[0] == later && later != 0,
        "ORACLE one-instance-for-everybody: {} threads received {} distinct instance(s); a later lookup returns {} of them",
        addrs.len(), distinct.len(), if distinct.contains(&later) { "one" } else { "none" });
    OUTCOMES.lock().unwrap().insert(format!("distinct{}", distinct.len()));
}

// ------------------------------------------------------------------------------------------

pub fn scenarios() -> Vec<(&'static str, &'static str)> {
    vec![("loom.c03", "C03"), ("loom.c01", "C01"), ("loom.c26", "C26")]
}

/// child: `qx loom-one <name> <pb> <choice> <max_secs> <checkpoint-file|->`
pub fn run_one(args: &[String]) {
    let name = args[0].clone();
    let pb: usize = args[1].parse().unwrap();
    let choice: usize = args[2].parse().unwrap();
    let max_secs: u64 = args[3].parse().unwrap();
    shim::CHOICE.store(choice, Ordering::Relaxed);
    std::panic::set_hook(Box::new(|info| {
        let msg = info.payload().downcast_ref::<&str>().map(|s| (*s).to_string())
            .or_else(|| info.payload().downcast_ref::<String>().cloned()).unwrap_or_else(|| "non-string panic".into());
        let mut f = FAILURE.lock().unwrap_or_else(|e| e.into_inner());
        if f.is_none() {
            *f = Some(format!("{msg} [{}]", info.location().map(|l| format!("{}:{}", l.file().rsplit('/').next().unwrap_or(""), l.line())).unwrap_or_default()));
        }
    }));
    let mut b = loom::model::Builder::new();
    b.preemption_bound = if pb == 0 { None } else { Some(pb) };
    b.max_duration = Some(Duration::from_secs(max_secs));
    b.max_branches = 100_000;
    if args.len() > 4 && args[4] != "-" {
        b.checkpoint_file = Some(args[4].clone().into());
        b.checkpoint_interval = 1;
    }
    let start = Instant::now();
    let q = qscn().into_iter().find(|s| s.name == name);
    let bn = bscn().into_iter().find(|s| s.name == name);
    let r = std::panic::catch_unwind(std::panic::AssertUnwindSafe(|| {
        if let Some(s) = q {
            b.check(move || queue_model(&s));
        } else if let Some(s) = bn {
            b.check(move || bean_model(&s));
        } else {
            panic!("unknown loom scenario {name}");
        }
    }));
    let failure = if r.is_err() { FAILURE.lock().unwrap_or_else(|e| e.into_inner()).clone().or(Some("panic".into())) } else { None };
    let capped = start.elapsed() >= Duration::from_secs(max_secs);
    let out = json!({"schedules": SCHEDULES.load(Ordering::Relaxed),
        "outcomes": OUTCOMES.lock().unwrap_or_else(|e| e.into_inner()).iter().cloned().collect::<Vec<_>>(),
        "failure": failure, "capped": capped, "secs": start.elapsed().as_secs_f64()});
    println!("LOOMRESULT {out}");
    // loom state may be poisoned after a failure: leave without running destructors
    unsafe { libc::_exit(0) };
}

fn classify(msg: &str) -> (String, String) {
    if let Some(rest) = msg.strip_prefix("ORACLE ") {
        let clause = rest.split(':').next().unwrap_or("oracle").to_string();
        (clause, rest.to_string())
    } else if msg.contains("Causality violation") || msg.contains("Concurrent") {
        ("data-race-detected-by-loom".into(), msg.to_string())
    } else if msg.contains("exceeded maximum number of branches") {
        // loom's way of saying that a thread never gets out of a loop under this schedule
        ("operation-never-returns".into(), msg.to_string())
    } else if msg.contains("deadlock") {
        ("deadlock".into(), msg.to_string())
    } else if msg.contains("assertion") || msg.contains("assert") {
        ("runtime-assertion-failed".into(), msg.to_string())
    } else {
        ("panic".into(), msg.to_string())
    }
}

pub fn run(group: &str, tier: &str, rep: &mut Report) -> bool {
    let thorough = tier == "thorough";
    let prefix = match group {
        "loom.c03" => "c03.",
        "loom.c01" => "c01.",
        "loom.c26" => "c26.",
        _ => return false,
    };
    let pb = if thorough { 3 } else { 2 };
    let exe = std::env::current_exe().expect("exe");
    let mut subs: Vec<(String, &'static str, String, usize, bool, String)> = Vec::new();
    for s in qscn() {
        if s.name.starts_with(prefix) && (thorough || !s.thorough_only) {
            subs.push((s.name.into(), s.property, s.what.into(), s.choices, s.ordered, s.class.into()));
        }
    }
    for s in bscn() {
        if s.name.starts_with(prefix) && (thorough || !s.thorough_only) {
            subs.push((s.name.into(), "C26", s.what.into(), 1, false, "concurrent-first-use".into()));
        }
    }
    let max_secs = if thorough { 240 } else { 12 };
    let mut bounds = Vec::new();
    std::fs::create_dir_all("out/loom").ok();
    for (name, prop, what, choices, _ordered, class) in subs {
        // the 3-thread overflow scenario is too large for bound 2 in the quick tier; the bound is
        // iterated: 1 in quick, 2 in thorough (reported per scenario in the evidence)
        let pb = if name.contains(".G11.") || name.contains(".G12.") { pb - 1 } else { pb };
        for choice in 0..choices {
            let ck = format!("out/loom/{name}.{choice}.checkpoint.json");
            let _ = std::fs::remove_file(&ck);
            let o = std::process::Command::new(&exe)
                .args(["loom-one", &name, &pb.to_string(), &choice.to_string(), &max_secs.to_string(), &ck])
                .env("LOOM_MAX_PREEMPTIONS", pb.to_string())
                .output()
                .expect("spawn loom-one");
            let stdout = String::from_utf8_lossy(&o.stdout);
            let line = stdout.lines().find_map(|l| l.strip_prefix("LOOMRESULT "));
            let Some(line) = line else {
                // loom aborted the process (double panic) – still an observation of a failure
                let err = String::from_utf8_lossy(&o.stderr);
                let msg = err.lines().find(|l| l.contains("panicked") || l.contains("ORACLE") || l.contains("Causality")).unwrap_or("process died without a result").to_string();
                let (clause, detail) = classify(&msg);
                rep.evaluations += 1;
                rep.violation_for(prop, &format!("{group}/{clause}/{name}:{class}"), format!("{name} ({what}), steal start {choice}: {detail} [process exit {:?}]", o.status.code()),
                    json!({"engine":"loomq","scenario":group,"sub":name,"preemption_bound":pb,"choice":choice}));
                continue;
            };
            let r: Value = serde_json::from_str(line).expect("loom result json");
            let n = r["schedules"].as_u64().unwrap_or(0);
            rep.evaluations += n;
            rep.states += n;
            rep.transitions += n;
            rep.validated_against_impl += n;
            for oc in r["outcomes"].as_array().cloned().unwrap_or_default() {
                let _ = rep.outcomes.insert(format!("{name}:{}", oc.as_str().unwrap_or("")));
                let _ = rep.nontrivial.insert(format!("{name}:{}", oc.as_str().unwrap_or("")));
            }
            if r["capped"].as_bool().unwrap_or(false) {
                rep.cap(&format!("{name}: loom stopped after {max_secs}s; {n} schedules explored at preemption bound {pb}"));
            }
            bounds.push(json!({"sub": name, "what": what, "steal_start": choice, "preemption_bound": pb, "schedules": n, "distinct_outcomes": r["outcomes"].as_array().map_or(0, Vec::len)}));
            if n >= 2 || r["failure"].is_string() || name == "c26.B5" {
                rep.witness("scenarios_with_more_than_one_schedule");
            }
            if let Some(msg) = r["failure"].as_str() {
                let (clause, detail) = classify(msg);
                // an operation that never returns (or a deadlock) of the queue programs is C04's clause
                let prop = if group == "loom.c03" && matches!(clause.as_str(), "operation-never-returns" | "deadlock") { "C04" } else { prop };
                rep.violation_for(prop, &format!("{group}/{clause}/{name}:{class}"),
                    format!("{name} ({what}), steal start {choice}, preemption bound {pb}, failing schedule #{n}: {detail}"),
                    json!({"engine":"loomq","scenario":group,"sub":name,"preemption_bound":pb,"choice":choice,"checkpoint":ck}));
            }
            if rep.samples.len() < 4 {
                rep.sample(json!({"sub": name, "what": what, "schedules": n, "outcomes": r["outcomes"]}));
            }
        }
    }
    rep.require(&["scenarios_with_more_than_one_schedule"]);
    rep.bounds = json!({"preemption_bound": pb, "threads": "2-3", "scenarios": bounds,
        "replaced_dependencies": "crossbeam Injector/SkipMap, dashmap -> linearizable shims on loom::sync::Mutex; st3 is the real crate built with --cfg st3_loom"});
    true
}

pub fn replay(v: &Value) -> bool {
    let (Some(sub), Some(pb)) = (v.get("sub").and_then(Value::as_str), v.get("preemption_bound").and_then(Value::as_u64)) else { return false };
    let choice = v.get("choice").and_then(Value::as_u64).unwrap_or(0);
    let exe = std::env::current_exe().expect("exe");
    println!("re-exploring {sub} at preemption bound {pb} (loom stops at the first failing schedule; exploration order is deterministic)");
    let o = std::process::Command::new(exe)
        .args(["loom-one", sub, &pb.to_string(), &choice.to_string(), "120", "-"])
        .output()
        .expect("spawn");
    let stdout = String::from_utf8_lossy(&o.stdout);
    for l in stdout.lines() {
        println!("  {l}");
    }
    true
}
