//! Inspecting wrappers around the REAL dependencies (st3, crossbeam-deque, crossbeam-skiplist).
//! They add nothing but (a) an operation counter with a budget, so that a non-terminating API call
//! becomes a deterministic observation, and (b) a shadow of where every item is, so that oracles
//! have ground truth without modelling the queue's policy or reading its private fields.
use std::cell::RefCell;
use std::collections::VecDeque;
use std::fmt::Debug;

pub use crossbeam_deque::Steal;

#[derive(Debug, Clone, PartialEq, Eq)]
pub enum Ev {
    Push { c: usize, item: String },
    /// `seq` = entry sequence number the item had in the queue it was taken from
    Pop { c: usize, item: String, seq: u64 },
    /// `n` oldest items of `from` appended to `to`
    Move { from: usize, to: usize, n: usize },
    /// an item was destroyed inside a container operation (never handed to anybody)
    Dropped { c: usize, item: String },
}

#[derive(Debug, Clone)]
pub struct Container {
    pub id: usize,
    pub kind: &'static str, // "worker" | "injector"
    /// owning ordered map and priority key, if the container lives in a SkipMap
    pub map: Option<usize>,
    pub key: Option<i64>,
    /// (item, sequence number of its entry into the *queue* this container belongs to)
    pub items: VecDeque<(String, u64)>,
    /// capacity of the underlying worker (0 for injectors): hidden state that decides when the
    /// container overflows, so it is part of the canonical state key
    pub cap: usize,
}

#[derive(Default)]
pub struct Ctx {
    pub containers: Vec<Container>,
    pub maps: usize,
    pub events: Vec<Ev>,
    pub ticks: u64,
    pub budget: u64,
    pub seq: u64,
    pub choices: VecDeque<usize>,
    pub choices_asked: Vec<usize>,
    pub shadow_mismatch: Option<String>,
}

thread_local! {
    pub static CTX: RefCell<Ctx> = RefCell::new(Ctx { budget: u64::MAX, ..Ctx::default() });
}

pub fn reset(budget: u64) {
    CTX.with(|c| *c.borrow_mut() = Ctx { budget, ..Ctx::default() });
}

pub fn with<R>(f: impl FnOnce(&mut Ctx) -> R) -> R {
    CTX.with(|c| f(&mut c.borrow_mut()))
}

pub const BUDGET_PANIC: &str = "QX_BUDGET_EXCEEDED";

fn tick() {
    let over = with(|c| {
        c.ticks += 1;
        c.ticks > c.budget
    });
    if over {
        // make the budget unlimited again so that unwinding (Drop impls pop) does not re-panic
        with(|c| c.budget = u64::MAX);
        panic!("{BUDGET_PANIC}");
    }
}

pub fn choice(n: usize) -> usize {
    with(|c| {
        c.choices_asked.push(n);
        c.choices.pop_front().unwrap_or(0) % n.max(1)
    })
}

fn new_container(kind: &'static str) -> usize {
    with(|c| {
        let id = c.containers.len();
        c.containers.push(Container { id, kind, map: None, key: None, items: VecDeque::new(), cap: 0 });
        id
    })
}

fn shadow_push(cid: usize, item: String) {
    with(|c| {
        c.seq += 1;
        let s = c.seq;
        c.containers[cid].items.push_back((item.clone(), s));
        c.events.push(Ev::Push { c: cid, item });
    });
}

fn shadow_pop(cid: usize, item: String) {
    with(|c| {
        let head = c.containers[cid].items.pop_front();
        if head.as_ref().map(|h| &h.0) != Some(&item) && c.shadow_mismatch.is_none() {
            c.shadow_mismatch = Some(format!(
                "container {cid} ({}) returned {item} but its oldest item is {:?}",
                c.containers[cid].kind, head
            ));
        }
        let seq = head.map_or(0, |h| h.1);
        c.events.push(Ev::Pop { c: cid, item, seq });
    });
}

// ------------------------------------------------------------------------------------------
// st3::fifo::Worker wrapper

pub struct Worker<T> {
    inner: st3::fifo::Worker<T>,
    pub cid: usize,
}

impl<T: Debug> Debug for Worker<T> {
    fn fmt(&self, f: &mut std::fmt::Formatter<'_>) -> std::fmt::Result {
        write!(f, "Worker#{}", self.cid)
    }
}

pub struct Stealer<'a, T> {
    src: &'a Worker<T>,
}

impl<T: Debug> Worker<T> {
    pub fn new(min_capacity: usize) -> Self {
        let inner = st3::fifo::Worker::new(min_capacity);
        let cid = new_container("worker");
        let cap = inner.capacity();
        with(|c| c.containers[cid].cap = cap);
        Worker { inner, cid }
    }
    pub fn stealer(&self) -> Stealer<'_, T> {
        Stealer { src: self }
    }
    pub fn capacity(&self) -> usize {
        tick();
        self.inner.capacity()
    }
    pub fn spare_capacity(&self) -> usize {
        tick();
        self.inner.spare_capacity()
    }
    pub fn is_empty(&self) -> bool {
        tick();
        self.inner.is_empty()
    }
    pub fn push(&self, item: T) -> Result<(), T> {
        tick();
        let d = format!("{item:?}");
        let r = self.inner.push(item);
        if r.is_ok() {
            shadow_push(self.cid, d);
        }
        r
    }
    pub fn pop(&self) -> Option<T> {
        tick();
        let r = self.inner.pop();
        if let Some(x) = &r {
            shadow_pop(self.cid, format!("{x:?}"));
        }
        r
    }
    pub fn extend<I: IntoIterator<Item = T>>(&self, iter: I) {
        for item in iter {
            if self.push(item).is_err() {
                break;
            }
        }
    }
    /// passthrough of st3's `drain`: items the caller takes out of the iterator are logged as
    /// pops; items claimed but not consumed are dropped by st3 and logged as dropped
    pub fn drain<C: FnMut(usize) -> usize>(&self, count_fn: C) -> Result<Drain<'_, T>, st3::StealError> {
        tick();
        self.inner.drain(count_fn).map(|d| Drain { inner: d, cid: self.cid })
    }
}

pub struct Drain<'a, T: Debug> {
    inner: st3::fifo::Drain<'a, T>,
    cid: usize,
}

impl<T: Debug> Iterator for Drain<'_, T> {
    type Item = T;
    fn next(&mut self) -> Option<T> {
        tick();
        let r = self.inner.next();
        if let Some(x) = &r {
            shadow_pop(self.cid, format!("{x:?}"));
        }
        r
    }
}

impl<T: Debug> Drop for Drain<'_, T> {
    fn drop(&mut self) {
        // whatever is still claimed is dropped by st3: it leaves the container for good
        while let Some(x) = self.inner.next() {
            let d = format!("{x:?}");
            with(|c| {
                let _ = c.containers[self.cid].items.pop_front();
                c.events.push(Ev::Dropped { c: self.cid, item: d });
            });
        }
    }
}

impl<T: Debug> Stealer<'_, T> {
    pub fn steal<C: FnMut(usize) -> usize>(&self, dest: &Worker<T>, count_fn: C) -> Result<usize, st3::StealError> {
        tick();
        let r = self.src.inner.stealer().steal(&dest.inner, count_fn);
        if let Ok(n) = r {
            with(|c| {
                // the queue the items enter: the destination's map (or the worker itself)
                for _ in 0..n {
                    if let Some((it, _)) = c.containers[self.src.cid].items.pop_front() {
                        c.seq += 1;
                        let s = c.seq;
                        c.containers[dest.cid].items.push_back((it, s));
                    } else if c.shadow_mismatch.is_none() {
                        c.shadow_mismatch = Some(format!("steal reported {n} items but the source shadow ran out"));
                    }
                }
                c.events.push(Ev::Move { from: self.src.cid, to: dest.cid, n });
            });
        }
        r
    }
}

// ------------------------------------------------------------------------------------------
// crossbeam_deque::Injector wrapper

pub struct Injector<T> {
    inner: crossbeam_deque::Injector<T>,
    pub cid: usize,
}

impl<T: Debug> Debug for Injector<T> {
    fn fmt(&self, f: &mut std::fmt::Formatter<'_>) -> std::fmt::Result {
        write!(f, "Injector#{}", self.cid)
    }
}

impl<T: Debug> Injector<T> {
    pub fn new() -> Self {
        Injector { inner: crossbeam_deque::Injector::new(), cid: new_container("injector") }
    }
    pub fn push(&self, item: T) {
        tick();
        let d = format!("{item:?}");
        self.inner.push(item);
        shadow_push(self.cid, d);
    }
    pub fn is_empty(&self) -> bool {
        tick();
        self.inner.is_empty()
    }
    pub fn len(&self) -> usize {
        tick();
        self.inner.len()
    }
    pub fn steal(&self) -> Steal<T> {
        tick();
        let r = self.inner.steal();
        if let Steal::Success(x) = &r {
            shadow_pop(self.cid, format!("{x:?}"));
        }
        r
    }
}

// ------------------------------------------------------------------------------------------
// crossbeam_skiplist::SkipMap wrapper (keys are priorities)

pub trait Adopt {
    fn adopt(&self, map: usize, key: i64);
}

impl<T> Adopt for Worker<T> {
    fn adopt(&self, map: usize, key: i64) {
        with(|c| {
            c.containers[self.cid].map = Some(map);
            c.containers[self.cid].key = Some(key);
        });
    }
}

impl<T> Adopt for Injector<T> {
    fn adopt(&self, map: usize, key: i64) {
        with(|c| {
            c.containers[self.cid].map = Some(map);
            c.containers[self.cid].key = Some(key);
        });
    }
}

pub struct SkipMap<K, V> {
    inner: crossbeam_skiplist::SkipMap<K, V>,
    pub mid: usize,
}

impl<K: Debug, V: Debug> Debug for SkipMap<K, V> {
    fn fmt(&self, f: &mut std::fmt::Formatter<'_>) -> std::fmt::Result {
        write!(f, "SkipMap#{}", self.mid)
    }
}

pub type Entry<'a, K, V> = crossbeam_skiplist::map::Entry<'a, K, V>;

impl<V: Adopt> SkipMap<i64, V> {
    pub fn new() -> Self {
        let mid = with(|c| {
            c.maps += 1;
            c.maps - 1
        });
        SkipMap { inner: crossbeam_skiplist::SkipMap::new(), mid }
    }
    pub fn get_or_insert_with<F: FnOnce() -> V>(&self, key: i64, f: F) -> Entry<'_, i64, V> {
        tick();
        let mid = self.mid;
        self.inner.get_or_insert_with(key, || {
            let v = f();
            v.adopt(mid, key);
            v
        })
    }
    pub fn iter(&self) -> crossbeam_skiplist::map::Iter<'_, i64, V> {
        tick();
        self.inner.iter()
    }
    pub fn get(&self, key: &i64) -> Option<Entry<'_, i64, V>> {
        tick();
        self.inner.get(key)
    }
    pub fn front(&self) -> Option<Entry<'_, i64, V>> {
        tick();
        self.inner.front()
    }
    pub fn back(&self) -> Option<Entry<'_, i64, V>> {
        tick();
        self.inner.back()
    }
    pub fn is_empty(&self) -> bool {
        tick();
        self.inner.is_empty()
    }
    pub fn len(&self) -> usize {
        tick();
        self.inner.len()
    }
}

impl<'a, V: Adopt> IntoIterator for &'a SkipMap<i64, V> {
    type Item = Entry<'a, i64, V>;
    type IntoIter = crossbeam_skiplist::map::Iter<'a, i64, V>;
    fn into_iter(self) -> Self::IntoIter {
        tick();
        self.inner.iter()
    }
}
