//! Binding the textual import back to the shipped crate: explored histories are replayed on the
//! real `open_coroutine_core` queues (real st3 / crossbeam, no wrappers) and all API-level
//! observations (pop results, shared `len()`, local lengths) must be identical.
use crate::seq::{run_history, Cfg, Op};
use open_coroutine_core::common::ordered_work_steal::{Ordered, OrderedWorkStealQueue};
use open_coroutine_core::common::work_steal::WorkStealQueue;
use std::cell::RefCell;
use std::collections::VecDeque;

#[derive(Clone, PartialEq, Eq)]
struct It {
    id: u32,
    prio: i64,
}

impl std::fmt::Debug for It {
    fn fmt(&self, f: &mut std::fmt::Formatter<'_>) -> std::fmt::Result {
        write!(f, "{}@{}", self.id, self.prio)
    }
}

impl Ordered for It {
    fn priority(&self) -> Option<i64> {
        Some(self.prio)
    }
}

thread_local! {
    static CHOICES: RefCell<VecDeque<usize>> = const { RefCell::new(VecDeque::new()) };
}

fn choice_hook(_site: &'static str, n: usize) -> usize {
    CHOICES.with(|c| c.borrow_mut().pop_front().unwrap_or(0)) % n.max(1)
}

fn real_obs(cfg: &Cfg, hist: &[Op]) -> Vec<String> {
    open_coroutine_core::verif::set_choice_hook(Some(choice_hook));
    let mut obs = Vec::new();
    let mut next = 0u32;
    macro_rules! drive {
        ($q:expr, $locals:expr, $push:expr, $llen:expr) => {{
            for op in hist {
                let item = match op {
                    Op::Push { p, .. } | Op::GPush { p } => {
                        next += 1;
                        Some(It { id: next, prio: *p })
                    }
                    Op::Pop { start, .. } => {
                        CHOICES.with(|c| {
                            c.borrow_mut().clear();
                            c.borrow_mut().push_back(*start)
                        });
                        None
                    }
                    Op::GPop => None,
                };
                let ret: Option<It> = match op {
                    Op::Push { q, .. } => {
                        $push(&$locals[*q], item.unwrap());
                        None
                    }
                    Op::Pop { q, .. } => $locals[*q].pop(),
                    Op::GPush { .. } => {
                        $q.push(item.unwrap());
                        None
                    }
                    Op::GPop => $q.pop(),
                };
                obs.push(match &ret {
                    Some(x) => format!("{x:?}"),
                    None => "-".into(),
                });
                obs.push(format!("len={} local={:?}", $q.len(), $locals.iter().map($llen).collect::<Vec<usize>>()));
            }
            // drain so that Drop's assertions hold
            loop {
                let mut any = false;
                for l in $locals.iter() {
                    while l.pop().is_some() {
                        any = true;
                    }
                }
                while $q.pop().is_some() {
                    any = true;
                }
                if !any {
                    break;
                }
            }
        }};
    }
    if cfg.ordered {
        let q = OrderedWorkStealQueue::<It>::new(cfg.locals, cfg.cap);
        let locals: Vec<_> = (0..cfg.locals).map(|_| q.local_queue()).collect();
        drive!(q, locals, |l: &open_coroutine_core::common::ordered_work_steal::OrderedLocalQueue<'_, It>, it: It| l.push(it), |l| l.local_len());
    } else {
        let q = WorkStealQueue::<It>::new(cfg.locals, cfg.cap);
        let locals: Vec<_> = (0..cfg.locals).map(|_| q.local_queue()).collect();
        drive!(q, locals, |l: &open_coroutine_core::common::work_steal::LocalQueue<'_, It>, it: It| l.push(it), |l| l.len());
    }
    obs
}

/// Returns (number of histories validated, machinery errors).
pub fn replay_on_real_crate(sets: &[(Cfg, Vec<Vec<Op>>)], cap: usize) -> (u64, Vec<String>) {
    let mut n = 0u64;
    let mut errs = Vec::new();
    let total: usize = sets.iter().map(|s| s.1.len()).sum();
    let stride = (total / cap.max(1)).max(1);
    let mut k = 0usize;
    for (cfg, hists) in sets {
        for h in hists {
            k += 1;
            // deterministic thinning when there are more histories than the cap: every stride-th
            // one plus all short ones
            if k % stride != 0 && h.len() > 4 {
                continue;
            }
            let shim_run = run_history(cfg, h, false);
            if shim_run.hang {
                continue; // hangs are replayed separately (they cannot run in-process)
            }
            let real = real_obs(cfg, h);
            n += 1;
            if real != shim_run.obs && errs.len() < 3 {
                errs.push(format!(
                    "conformance: history {:?} on {} gives {:?} on the real crate but {:?} on the imported source",
                    h.iter().map(Op::to_json).collect::<Vec<_>>(),
                    cfg.to_json(),
                    real,
                    shim_run.obs
                ));
            }
        }
    }
    (n, errs)
}

/// Replay one history that hangs on the imported source in a forked child with an alarm, and
/// report whether the real crate hangs too.
pub fn real_hangs(cfg: &Cfg, hist: &[Op]) -> bool {
    unsafe {
        let pid = libc::fork();
        if pid == 0 {
            libc::alarm(2);
            let _ = real_obs(cfg, hist);
            libc::_exit(0);
        }
        let mut st = 0;
        libc::waitpid(pid, &mut st, 0);
        libc::WIFSIGNALED(st) && libc::WTERMSIG(st) == libc::SIGALRM
    }
}
