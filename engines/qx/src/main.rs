//! qx – exploration of the work-steal queues and the bean factory on the repository's own source
//! text (imported by build.rs).
//!   default build (engine "qsx"): sequential explicit-state search with inspecting wrappers of the
//!                                 real dependencies + conformance replay on the real crate
//!   --features loomq (engine "loomq"): all interleavings under loom, real st3 built with st3_loom
#![allow(dead_code, unused_imports, unexpected_cfgs, clippy::all)]

#[path = "../../seqx/src/report.rs"]
mod report;

#[cfg(not(feature = "loomq"))]
#[path = "shim_seq.rs"]
mod shim;
#[cfg(feature = "loomq")]
#[path = "shim_loom.rs"]
mod shim;

#[allow(missing_docs, dead_code)]
mod plain {
    include!(concat!(env!("OUT_DIR"), "/work_steal.rs"));
}
#[allow(missing_docs, dead_code)]
mod ordered {
    include!(concat!(env!("OUT_DIR"), "/ordered_work_steal.rs"));
}

#[cfg(feature = "loomq")]
#[allow(missing_docs, dead_code)]
mod beans {
    include!(concat!(env!("OUT_DIR"), "/beans.rs"));
}

#[cfg(not(feature = "loomq"))]
mod conform;
#[cfg(not(feature = "loomq"))]
mod seq;
#[cfg(not(feature = "loomq"))]
mod seq_main;
#[cfg(not(feature = "loomq"))]
use seq_main as imp;

#[cfg(feature = "loomq")]
mod loom_main;
#[cfg(feature = "loomq")]
use loom_main as imp;

use report::Report;
use serde_json::Value;

fn main() {
    let args: Vec<String> = std::env::args().collect();
    match args.get(1).map(String::as_str) {
        Some("list") => {
            for (s, p) in imp::scenarios() {
                println!("{s} {p}");
            }
        }
        Some("run") if args.len() >= 5 => {
            let (name, tier, out) = (&args[2], &args[3], &args[4]);
            let Some(prop) = imp::scenarios().iter().find(|(s, _)| s == name).map(|(_, p)| *p) else {
                eprintln!("unknown scenario {name}");
                std::process::exit(3)
            };
            let mut rep = Report::new(prop, name, tier);
            if !imp::run(name, tier, &mut rep) {
                eprintln!("unknown scenario {name}");
                std::process::exit(3);
            }
            std::fs::write(out, serde_json::to_string_pretty(&rep.to_json()).unwrap()).expect("write result");
            eprintln!(
                "[qx] {name} {tier}: evaluations={} states={} violations={} machinery_errors={} exhaustive={}",
                rep.evaluations,
                rep.states,
                rep.violations.len(),
                rep.machinery_errors.len(),
                rep.exhaustive
            );
        }
        Some("replay") if args.len() >= 3 => {
            let text = std::fs::read_to_string(&args[2]).expect("read replay file");
            let v: Value = serde_json::from_str(&text).expect("parse replay file");
            let r = v.get("replay").unwrap_or(&v).clone();
            if !imp::replay(&r) {
                eprintln!("cannot replay this file with this engine");
                std::process::exit(3);
            }
        }
        #[cfg(not(feature = "loomq"))]
        Some("bfs") => {
            let v: Value = serde_json::from_str(&args[2]).expect("cfg json");
            let c = seq::Cfg::from_json(&v).expect("cfg");
            let depth: usize = args[3].parse().unwrap();
            let mut rep = Report::new("C05", "debug", "quick");
            let ex = seq::bfs(&c, depth, seq::budget("quick", 60, 60), &mut rep, "debug", false);
            println!("states {} transitions {} violations {:?}", ex.states, ex.transitions, rep.violations.iter().map(|v| (&v.signature, &v.detail)).collect::<Vec<_>>());
        }
        // internal: one loom scenario in its own process
        Some("loom-one") => {
            #[cfg(feature = "loomq")]
            imp::run_one(&args[2..]);
        }
        _ => {
            eprintln!("usage: qx list | run <scenario> <tier> <out.json> | replay <file>");
            std::process::exit(3);
        }
    }
}
