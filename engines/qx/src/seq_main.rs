//! Scenario table of the sequential queue explorer.
use crate::report::Report;
use crate::seq::{self, bfs, budget, hist_json, run_history, Cfg, Op};
use serde_json::{json, Value};
use std::time::Instant;

pub fn scenarios() -> Vec<(&'static str, &'static str)> {
    vec![
        ("q.c03seq", "C03"),
        ("q.c04", "C04"),
        ("q.c05", "C05"),
        ("q.c06", "C06"),
    ]
}

fn cfg(ordered: bool, locals: usize, cap: usize, prios: &[i64], pretick: u32) -> Cfg {
    Cfg { ordered, locals, cap, prios: prios.to_vec(), pretick }
}

/// (configuration, depth) lists per scenario and tier
fn plan(name: &str, tier: &str) -> Vec<(Cfg, usize)> {
    let t = tier == "thorough";
    let mut v = Vec::new();
    match name {
        "q.c04" | "q.c03seq" => {
            for ordered in [true, false] {
                let prios: &[i64] = if ordered { &[0, 1] } else { &[0] };
                for cap in [1usize, 2, 3] {
                    v.push((cfg(ordered, 2, cap, prios, 0), if t { 9 } else { 7 }));
                }
                v.push((cfg(ordered, 3, 2, &[0], 0), if t { 8 } else { 6 }));
                if t {
                    v.push((cfg(ordered, 3, 1, prios, 0), 7));
                    v.push((cfg(ordered, 2, 4, prios, 0), 9));
                    v.push((cfg(ordered, 2, 2, prios, 59), 8));
                }
            }
        }
        "q.c05" => {
            // priority-rich alphabets incl. the i64 extremes, single local queue and shared queue
            let rich: &[i64] = &[i64::MIN, -1, 0, 1, i64::MAX];
            for cap in [1usize, 2, 4] {
                v.push((cfg(true, 1, cap, rich, 0), if t { 7 } else { 5 }));
            }
            v.push((cfg(true, 2, 2, &[-1, 0, 1], 0), if t { 8 } else { 6 }));
            v.push((cfg(true, 2, 4, &[i64::MIN, 0, i64::MAX], 0), if t { 8 } else { 6 }));
            v.push((cfg(true, 2, 2, &[0, 1], 59), if t { 8 } else { 6 }));
            v.push((cfg(false, 2, 2, &[0], 0), if t { 9 } else { 7 }));
        }
        "q.c06" => {
            for ordered in [true, false] {
                let prios: &[i64] = if ordered { &[0, 1] } else { &[0] };
                for cap in [1usize, 2, 4] {
                    v.push((cfg(ordered, 2, cap, prios, 0), if t { 9 } else { 7 }));
                }
                v.push((cfg(ordered, 3, 2, &[0], 0), if t { 8 } else { 6 }));
                v.push((cfg(ordered, 2, 2, prios, 59), if t { 8 } else { 6 }));
            }
        }
        _ => {}
    }
    v
}

/// C06(a): an item waiting in the shared queue is returned within 61 consecutive pops on a local
/// queue that never runs empty. One item is injected before pop number j, for every j.
fn bound61(rep: &mut Report, scen: &str, tier: &str) {
    let max_j = if tier == "thorough" { 200 } else { 130 };
    for ordered in [true, false] {
        for refill in [1usize, 2] {
            // shared item priority relative to the local items: higher (-1), equal (0), lower (1)
            for sp in if ordered { vec![-1i64, 0, 1] } else { vec![0] } {
                for j in 0..max_j {
                    rep.evaluations += 1;
                    rep.transitions += 62;
                    let c = cfg(ordered, 2, 4, &[0], 0);
                    // history: keep L0 at `refill` items; before pop j inject one shared item
                    let mut h: Vec<Op> = Vec::new();
                    for _ in 0..refill {
                        h.push(Op::Push { q: 0, p: 0 });
                    }
                    let mut injected_at = None;
                    for k in 0..(j + 62) {
                        if k == j {
                            h.push(Op::GPush { p: sp });
                            injected_at = Some(h.len() - 1);
                        }
                        h.push(Op::Pop { q: 0, start: 0 });
                        h.push(Op::Push { q: 0, p: 0 });
                    }
                    // run and find when the injected item came back
                    let r = run_trace(&c, &h);
                    let inj = injected_at.unwrap();
                    let inj_id = r.push_ids[inj];
                    let mut pops_after = 0;
                    let mut found = None;
                    for (k, op) in h.iter().enumerate().skip(inj + 1) {
                        if let Op::Pop { .. } = op {
                            pops_after += 1;
                            if r.rets.get(k).copied().flatten() == Some(inj_id) {
                                found = Some(pops_after);
                                break;
                            }
                        }
                    }
                    let _ = rep.outcomes.insert(format!("{found:?}"));
                    match found {
                        Some(n) if n <= 61 => {
                            rep.witness("shared_item_returned_by_tick_path");
                            if rep.nontrivial.len() < 5000 {
                                let _ = rep.nontrivial.insert(format!("{ordered}{refill}{sp}{j}"));
                            }
                        }
                        other => {
                            rep.violation_for(
                                "C06",
                                &format!("{scen}/shared-item-within-61-pops/{}", if ordered { "ordered" } else { "plain" }),
                                format!("{}: local L0 refilled to {refill}, shared item (prio {sp}) injected before pop #{j}: returned after {other:?} pops (bound 61){}", c.to_json(), if r.hang { " [hang]" } else { "" }),
                                json!({"engine":"qsx","scenario":scen,"config":c.to_json(),"history":hist_json(&h),"bound61":{"injected_before_pop":j}}),
                            );
                        }
                    }
                }
            }
        }
    }
    // steal-fed variant: L0 is never pushed to, it lives on what it steals from a sibling that is
    // kept stocked; the shared item must still come back within 61 pops of L0
    for ordered in [true, false] {
        for cap in [2usize, 4, 8] {
            for j in (0..max_j).step_by(if tier == "thorough" { 1 } else { 3 }) {
                rep.evaluations += 1;
                let c = cfg(ordered, 2, cap, &[0], 0);
                let mut h: Vec<Op> = Vec::new();
                let mut injected_at = None;
                for k in 0..(j + 62) {
                    if k == j {
                        h.push(Op::GPush { p: 0 });
                        injected_at = Some(h.len() - 1);
                    }
                    // keep the sibling stocked (its capacity bounds what it really holds)
                    h.push(Op::Push { q: 1, p: 0 });
                    h.push(Op::Pop { q: 0, start: 0 });
                }
                let r = run_trace(&c, &h);
                let inj = injected_at.unwrap();
                let inj_id = r.push_ids[inj];
                let mut pops_after = 0;
                let mut found = None;
                for (k, op) in h.iter().enumerate().skip(inj + 1) {
                    if let Op::Pop { q: 0, .. } = op {
                        pops_after += 1;
                        if r.rets.get(k).copied().flatten() == Some(inj_id) {
                            found = Some(pops_after);
                            break;
                        }
                    }
                }
                // the sibling's overflow also feeds the shared queue, so older shared items may
                // be served first; the injected one is identified by its id
                match found {
                    Some(n) if n <= 61 => rep.witness("shared_item_returned_to_steal_fed_queue"),
                    other => rep.violation_for(
                        "C06",
                        &format!("{scen}/shared-item-within-61-pops/{}:steal-fed", if ordered { "ordered" } else { "plain" }),
                        format!("{}: L0 lives on stealing from L1 (kept stocked), shared item injected before pop #{j}: returned after {other:?} pops of L0 (bound 61)", c.to_json()),
                        json!({"engine":"qsx","scenario":scen,"config":c.to_json(),"history":hist_json(&h),"bound61":{"injected_before_pop":j,"steal_fed":true}}),
                    ),
                }
            }
        }
    }
    rep.sample(json!({"bound61": "L0 kept at 1 or 2 items; one shared item injected before pop j for every j < 130 (200 thorough); must come back within 61 pops of L0"}));
}

pub struct Trace {
    pub rets: Vec<Option<u32>>,
    pub push_ids: Vec<u32>,
    pub hang: bool,
}

/// plain execution of a long history (no oracles), returning what every op returned
pub fn run_trace(c: &Cfg, h: &[Op]) -> Trace {
    // re-use run_history's machinery through the observation list
    let r = run_history(c, h, false);
    let mut rets = Vec::new();
    let mut push_ids = Vec::new();
    let mut next = 0u32;
    let mut it = r.obs.iter();
    for op in h {
        match op {
            Op::Push { .. } | Op::GPush { .. } => {
                next += 1;
                push_ids.push(next);
            }
            _ => push_ids.push(0),
        }
        match it.next() {
            Some(o) if o == "HANG" => {
                rets.push(None);
                break;
            }
            Some(o) => {
                rets.push(o.split_once('@').and_then(|(a, _)| a.parse().ok()));
                let _ = it.next(); // the len line
            }
            None => break,
        }
    }
    Trace { rets, push_ids, hang: r.hang }
}

pub fn run(name: &str, tier: &str, rep: &mut Report) -> bool {
    let plan = plan(name, tier);
    if plan.is_empty() {
        return false;
    }
    let deadline = budget(tier, 40, 1500);
    let per_cfg = (deadline - Instant::now()) / (plan.len() as u32);
    let mut bounds = Vec::new();
    let mut conform_hists: Vec<(Cfg, Vec<Vec<Op>>)> = Vec::new();
    match name {
        "q.c04" => rep.require(&["overflow_to_shared", "steal_moved_items"]),
        "q.c03seq" => rep.require(&["overflow_to_shared", "steal_moved_items"]),
        "q.c05" => rep.require(&["steal_moved_items"]),
        "q.c06" => rep.require(&["idle_pop_with_work_elsewhere", "shared_item_returned_by_tick_path"]),
        _ => {}
    }
    for (c, depth) in &plan {
        let dl = (Instant::now() + per_cfg).min(deadline);
        let keep = c.locals == 2 && c.pretick == 0;
        let ex = bfs(c, *depth, dl, rep, name, keep);
        rep.evaluations += ex.execs;
        rep.states += ex.states;
        rep.transitions += ex.transitions;
        bounds.push(json!({"config": c.to_json(), "max_depth": depth, "depth_completed": ex.depth_done, "states": ex.states, "transitions": ex.transitions}));
        if keep {
            conform_hists.push((c.clone(), ex.histories));
        }
    }
    if name == "q.c06" {
        bound61(rep, name, tier);
    }
    // bind back to the real crate: replay explored histories of the 2-local configurations
    let (n, errs) = crate::conform::replay_on_real_crate(&conform_hists, if tier == "thorough" { 400_000 } else { 30_000 });
    rep.validated_against_impl = n;
    for e in errs {
        rep.machinery_errors.push(e);
    }
    rep.bounds = json!({"configurations": bounds, "budget_per_call": seq::BUDGET,
        "dedup_key": "ground-truth contents of every queue (ids relabelled) + reported shared len + reported local lengths + pops mod 61 + the per-priority containers that exist (queue, key, capacity)",
        "drain_probe": "in every visited state: draining all queues returns exactly the items not yet popped"});
    rep.sample(json!({"config": plan[0].0.to_json(), "history": hist_json(&[Op::Push { q: 0, p: 0 }, Op::Push { q: 0, p: 0 }, Op::Pop { q: 1, start: 0 }, Op::Pop { q: 0, start: 0 }])}));
    true
}

pub fn replay(v: &Value) -> bool {
    let (Some(c), Some(h)) = (v.get("config").and_then(Cfg::from_json), v.get("history").and_then(Value::as_array)) else { return false };
    let h: Vec<Op> = h.iter().filter_map(Op::from_json).collect();
    println!("config {}", c.to_json());
    let r = run_history(&c, &h, true);
    let mut it = r.obs.iter();
    for op in &h {
        match it.next() {
            Some(o) if o == "HANG" => {
                println!("  {} -> DOES NOT RETURN (budget of {} container operations exceeded)", op.to_json(), seq::BUDGET);
                break;
            }
            Some(o) => println!("  {} -> {o}   [{}]", op.to_json(), it.next().cloned().unwrap_or_default()),
            None => break,
        }
    }
    match r.viol {
        Some(v) => println!("violation: {} {} ({}): {}", v.property, v.clause, v.class, v.detail),
        None => println!("no violation"),
    }
    true
}
