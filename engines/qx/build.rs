//! Textual import of the repository's queue and bean-factory sources. Only `use` lines, the one
//! random draw and the `num_cpus` default are rewritten; every line of open-coroutine's own logic
//! is the repo's text. A missing expected line fails the build loudly, so that a refactor cannot
//! silently turn the checks vacuous.
use std::path::PathBuf;

fn main() {
    let repo = std::env::var("VERIF_REPO").unwrap_or_else(|_| "/repo".to_string());
    let out = PathBuf::from(std::env::var("OUT_DIR").unwrap());
    let loomq = std::env::var("CARGO_FEATURE_LOOMQ").is_ok();
    println!("cargo:rerun-if-env-changed=VERIF_REPO");
    println!("cargo:rustc-check-cfg=cfg(feature, values(\"verif\"))");

    let atom = if loomq { "use loom::sync::atomic::" } else { "use std::sync::atomic::" };
    let worker = if loomq { "use st3::fifo::Worker;" } else { "use crate::shim::Worker;" };

    let imports: Vec<(&str, Vec<(&str, String)>)> = vec![
        (
            "core/src/common/work_steal.rs",
            vec![
                ("use crossbeam_deque::{Injector, Steal};", "use crate::shim::{Injector, Steal};".into()),
                ("use rand::RngExt;", String::new()),
                ("use st3::fifo::Worker;", worker.into()),
                ("use std::sync::atomic::", atom.into()),
                ("rand::rng().random_range(0..num)", "crate::shim::choice(num)".into()),
                ("num_cpus::get()", "4".into()),
            ],
        ),
        (
            "core/src/common/ordered_work_steal.rs",
            vec![
                ("use crossbeam_deque::{Injector, Steal};", "use crate::shim::{Injector, Steal};".into()),
                ("use crossbeam_skiplist::SkipMap;", "use crate::shim::SkipMap;".into()),
                ("use rand::RngExt;", String::new()),
                ("use st3::fifo::Worker;", worker.into()),
                ("use std::sync::atomic::", atom.into()),
                ("rand::rng().random_range(0..num)", "crate::shim::choice(num)".into()),
                ("num_cpus::get()", "4".into()),
            ],
        ),
        (
            "core/src/common/beans.rs",
            vec![
                ("use dashmap::DashMap;", "use crate::shim::DashMap;".into()),
                ("use std::sync::atomic::", atom.into()),
                (
                    "static INSTANCE: AtomicUsize = AtomicUsize::new(0);",
                    if loomq {
                        "loom::lazy_static! { static ref INSTANCE: AtomicUsize = AtomicUsize::new(0); }".into()
                    } else {
                        "static INSTANCE: AtomicUsize = AtomicUsize::new(0);".into()
                    },
                ),
            ],
        ),
    ];
    for (rel, subs) in imports {
        let path = PathBuf::from(&repo).join(rel);
        println!("cargo:rerun-if-changed={}", path.display());
        let mut text = std::fs::read_to_string(&path).unwrap_or_else(|e| panic!("cannot read {}: {e}", path.display()));
        for (from, to) in subs {
            // the `use` lines must be there (without the rewrite nothing would be intercepted: fail
            // loudly); the random draw and the cpu count may have been rephrased by a change under
            // test - then the source keeps its own (rand / num_cpus are linked) and only the
            // harness' control over the steal start is lost
            let optional = from.starts_with("rand::rng()") || from.starts_with("num_cpus::") || from == "use rand::RngExt;";
            if !text.contains(from) {
                assert!(optional, "qx/build.rs: expected text `{from}` not found in {rel}; the import rules must be revisited");
                println!("cargo:warning=qx import: `{from}` not found in {rel}; left as it is");
                continue;
            }
            text = text.replace(from, &to);
        }
        // doc tests / doc includes are irrelevant here
        let name = PathBuf::from(rel).file_name().unwrap().to_owned();
        std::fs::write(out.join(name), text).unwrap();
    }
}
