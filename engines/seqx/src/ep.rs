//! C20 / C21 – readiness handling on a synchronous event loop with the REAL epoll instance and a
//! virtual clock (the loop's select polls with a zero timeout and advances the clock if nothing
//! is ready).
//!   ep.wake     (C20) waiters x descriptors x readiness instants x id shapes: the waiting coroutine
//!               is resumed by the readiness event itself, nobody else is
//!   ep.interest (C21) all interest-operation histories over two descriptors: the interest epoll
//!               really holds (/proc/self/fdinfo/<epfd>) equals the union of the outstanding waits
use crate::explore::{sweep, Budget};
use crate::report::Report;
use crate::runner::{child_emit, ChildResult, Emitter, RunCfg};
use open_coroutine_core::common::now;
use open_coroutine_core::coroutine::suspender::Suspender;
use open_coroutine_core::net::verif_facade::SyncLoop;
use open_coroutine_core::scheduler::SchedulableCoroutine;
use open_coroutine_core::syscall as sc;
use serde_json::{json, Value};
use std::hash::{DefaultHasher, Hash, Hasher};
use std::sync::{Arc, Mutex};
use std::time::Duration;

const T0: u64 = 1_700_000_000_000_000_000;
const MS: u64 = 1_000_000;

fn id_of(name: &str) -> u64 {
    let mut h = DefaultHasher::new();
    name.to_string().hash(&mut h);
    h.finish()
}

fn fold(id: u64) -> u32 {
    ((id >> 32) as u32) ^ (id as u32)
}

/// two coroutine names whose 64-bit ids are different but collide when folded to 32 bits
pub fn colliding_names() -> (String, String) {
    let mut seen: std::collections::HashMap<u32, String> = std::collections::HashMap::new();
    for i in 0..4_000_000u32 {
        let n = format!("c20-fold-{i}");
        let id = id_of(&n);
        if let Some(o) = seen.get(&fold(id)) {
            if id_of(o) != id {
                return (o.clone(), n);
            }
        }
        let _ = seen.insert(fold(id), n);
    }
    ("c20-a".into(), "c20-b".into())
}

// ------------------------------------------------------------------------------------------
// C20

/// when does the waiter's descriptor become readable (virtual ms after start; the loop turns at
/// multiples of 10 ms): 0 = before the waiter even registers, 1 = during the first slice,
/// 2 = during a later slice, 3 = never (until the horizon)
const WHEN: [&str; 4] = ["before-registration", "first-slice", "later-slice", "never"];

#[derive(Clone, Debug)]
pub struct WakeCase {
    /// per waiter: readiness instant
    when: Vec<usize>,
    colliding: bool,
    /// the first waiter's descriptor number is closed and reused by a late waiter afterwards
    reuse: bool,
}

impl WakeCase {
    fn to_json(&self) -> Value {
        json!({"waiters": self.when.iter().map(|w| WHEN[*w]).collect::<Vec<_>>(), "ids_collide_when_folded_to_32_bits": self.colliding, "descriptor_reused_by_a_late_waiter": self.reuse})
    }
    fn from_json(v: &Value) -> Option<WakeCase> {
        Some(WakeCase {
            when: v.get("waiters")?.as_array()?.iter().map(|w| WHEN.iter().position(|x| Some(*x) == w.as_str())).collect::<Option<Vec<_>>>()?,
            colliding: v.get("ids_collide_when_folded_to_32_bits")?.as_bool()?,
            reuse: v.get("descriptor_reused_by_a_late_waiter")?.as_bool()?,
        })
    }
}

fn observe(kind: &'static str, a: u64, b: u64) {
    if kind == "loop_resume" {
        child_emit(json!({"t":"resume","token":a.to_string(),"hit":b,"at":now() - T0}));
    }
}

pub fn exec_wake(c: &WakeCase, em: &mut Emitter) {
    std::panic::set_hook(Box::new(|_| {}));
    open_coroutine_core::verif::clock_enable(T0);
    open_coroutine_core::verif::set_observe_hook(Some(observe));
    let n = c.when.len();
    let mut names: Vec<String> = (0..n).map(|i| format!("c20-waiter-{i}")).collect();
    if c.colliding && n >= 2 {
        let (a, b) = colliding_names();
        em.emit(json!({"t":"names","a":a,"b":b,"fold_equal": fold(id_of(&a)) == fold(id_of(&b)), "ids_differ": id_of(&a) != id_of(&b)}));
        names[0] = a;
        names[1] = b;
    }
    let mut lp = SyncLoop::new("c20-loop", 128 * 1024, 0, 8, 0).expect("loop");
    lp.enter();
    let done: Arc<Mutex<Vec<Option<(u64, i64)>>>> = Arc::new(Mutex::new(vec![None; n + 1]));
    let mut fds: Vec<(i32, i32)> = Vec::new();
    for _ in 0..n {
        let mut sv = [0; 2];
        assert_eq!(0, unsafe { libc::socketpair(libc::AF_UNIX, libc::SOCK_STREAM, 0, sv.as_mut_ptr()) });
        fds.push((sv[0], sv[1]));
    }
    let make_ready = |fd: i32| {
        let b = [9u8];
        assert_eq!(1, unsafe { libc::write(fd, b.as_ptr().cast(), 1) });
    };
    let spawn = |lp: &SyncLoop, name: &str, idx: usize, fd: i32, done: Arc<Mutex<Vec<Option<(u64, i64)>>>>| {
        let co: SchedulableCoroutine<'static> = open_coroutine_core::co!(
            Some(name.to_string()),
            move |_: &Suspender<(), ()>, ()| {
                let mut b = [0u8; 1];
                let r = sc::read(None, fd, b.as_mut_ptr().cast(), 1);
                done.lock().unwrap()[idx] = Some((now() - T0, r as i64));
                Some(idx)
            },
            Some(128 * 1024)
        )
        .expect("coroutine");
        let id = lp.pool().submit_raw_co(co).expect("submit");
        child_emit(json!({"t":"waiter","idx":idx,"token":id.to_string()}));
    };
    for i in 0..n {
        if c.when[i] == 0 {
            make_ready(fds[i].1);
            em.emit(json!({"t":"ready","idx":i,"at":0}));
        }
        spawn(&lp, &names[i], i, fds[i].0, done.clone());
    }
    // turn 0 registers the waiters; readiness is produced between turns
    let mut late_spawned = false;
    // the driver's loop turns are 3 ms long while a waiter's own periodic wait is 10 ms, so that a
    // wake by the readiness event and a wake by the periodic timeout happen at different instants
    for turn in 0..12u64 {
        let _ = lp.wait_event(Some(Duration::from_millis(3)));
        let t = now() - T0;
        em.emit(json!({"t":"turn","n":turn,"at":t}));
        for i in 0..n {
            let due = match c.when[i] {
                1 => turn == 0,
                2 => turn == 4,
                _ => false,
            };
            if due {
                make_ready(fds[i].1);
                em.emit(json!({"t":"ready","idx":i,"at":t}));
            }
        }
        if c.reuse && !late_spawned && done.lock().unwrap()[0].is_some() {
            // the first waiter is finished with its descriptor: close it through the hook and let
            // a different coroutine wait on a new socket that gets the same number
            let num = fds[0].0;
            let _ = sc::close(None, num);
            let mut sv = [0; 2];
            assert_eq!(0, unsafe { libc::socketpair(libc::AF_UNIX, libc::SOCK_STREAM, 0, sv.as_mut_ptr()) });
            if sv[0] != num {
                assert_eq!(num, unsafe { libc::dup2(sv[0], num) });
                unsafe { libc::close(sv[0]) };
            }
            spawn(&lp, "c20-late-waiter", n, num, done.clone());
            // one full turn so that the late waiter runs, finds nothing and registers its wait
            let _ = lp.wait_event(Some(Duration::from_millis(3)));
            let t = now() - T0;
            make_ready(sv[1]);
            em.emit(json!({"t":"ready","idx":n,"at":t}));
            late_spawned = true;
        }
    }
    let d: Vec<Value> = done.lock().unwrap().iter().map(|x| x.map_or(json!(null), |(t, r)| json!({"at":t,"ret":r}))).collect();
    em.emit(json!({"t":"end","done":d,"late":late_spawned}));
    lp.leave();
    lp.forget();
}

pub fn judge_wake(c: &WakeCase, res: &ChildResult, rep: &mut Report) {
    let replay = || json!({"engine":"seqx","scenario":"ep.wake","case":c.to_json()});
    if !res.exit.ok() {
        rep.violation(&format!("ep.wake/process-survives/{}", res.exit.describe()), format!("{}: the process {}", c.to_json(), res.exit.describe()), replay());
        return;
    }
    let Some(end) = res.last("end") else {
        rep.machinery_errors.push("ep.wake: no end record".into());
        return;
    };
    if c.colliding {
        match res.last("names") {
            Some(nm) if nm["fold_equal"] == true && nm["ids_differ"] == true => rep.witness("colliding_ids_found"),
            _ => {
                rep.machinery_errors.push("ep.wake: no pair of colliding ids found".into());
                return;
            }
        }
    }
    let _ = rep.nontrivial.insert(c.to_json().to_string());
    let tokens: std::collections::HashMap<String, usize> = res.find("waiter").iter().map(|w| (w["token"].as_str().unwrap().to_string(), w["idx"].as_u64().unwrap() as usize)).collect();
    let ready_at: std::collections::HashMap<usize, u64> = res.find("ready").iter().map(|r| (r["idx"].as_u64().unwrap() as usize, r["at"].as_u64().unwrap())).collect();
    let done = end["done"].as_array().unwrap();
    let class = if c.colliding { "ids-collide-under-32-bit-fold" } else if c.reuse { "descriptor-reuse" } else { "plain" };
    // hits by waiter
    let mut hit_for: std::collections::HashMap<usize, Vec<u64>> = std::collections::HashMap::new();
    for r in res.find("resume") {
        if r["hit"] == 1 {
            if let Some(i) = tokens.get(r["token"].as_str().unwrap()) {
                hit_for.entry(*i).or_default().push(r["at"].as_u64().unwrap());
            }
        }
    }
    for (i, d) in done.iter().enumerate() {
        let Some(rt) = ready_at.get(&i) else {
            // never made ready: must not have returned, and nobody may have woken it
            if !d.is_null() && i < c.when.len() {
                rep.violation(&format!("ep.wake/readiness-of-one-descriptor-never-resumes-another-waiter/{class}"), format!("{}: waiter {i} returned ({d}) although its descriptor never became ready", c.to_json()), replay());
                return;
            }
            if hit_for.contains_key(&i) {
                rep.violation(&format!("ep.wake/readiness-of-one-descriptor-never-resumes-another-waiter/{class}"), format!("{}: waiter {i} was resumed by a readiness event although its own descriptor never became ready", c.to_json()), replay());
                return;
            }
            continue;
        };
        if i >= c.when.len() && !end["late"].as_bool().unwrap_or(false) {
            continue;
        }
        if d.is_null() {
            rep.violation(&format!("ep.wake/resumed-on-the-readiness-event/{class}"), format!("{}: waiter {i}'s descriptor became ready at {rt}ns but the waiter never returned", c.to_json()), replay());
            return;
        }
        let at = d["at"].as_u64().unwrap();
        if d["ret"].as_i64() != Some(1) {
            rep.violation(&format!("ep.wake/read-returns-the-byte/{class}"), format!("{}: waiter {i} returned {}", c.to_json(), d["ret"]), replay());
            return;
        }
        // data that was there before the waiter registered is simply read: no wait involved
        let before_reg = i < c.when.len() && c.when[i] == 0;
        if !before_reg {
            if at != *rt {
                rep.violation(&format!("ep.wake/resumed-on-the-readiness-event/{class}"), format!("{}: waiter {i}'s descriptor became ready at {rt}ns of virtual time, the waiter returned at {at}ns: it was woken by its periodic wait timeout, not by the readiness event", c.to_json()), replay());
                return;
            }
            if !hit_for.get(&i).is_some_and(|v| v.contains(rt)) {
                rep.violation(&format!("ep.wake/resumed-on-the-readiness-event/{class}"), format!("{}: waiter {i} returned at the right instant but no readiness event carrying its own id was dispatched to it", c.to_json()), replay());
                return;
            }
            rep.witness("callback_wakes_seen");
        }
        // nobody else was resumed by this event
        for (j, hits) in &hit_for {
            if *j != i && hits.contains(rt) && ready_at.get(j) != Some(rt) {
                rep.violation(&format!("ep.wake/readiness-of-one-descriptor-never-resumes-another-waiter/{class}"), format!("{}: the event for waiter {i}'s descriptor (at {rt}ns) also resumed waiter {j}", c.to_json()), replay());
                return;
            }
        }
    }
}

pub fn wake_cases(tier: &str) -> Vec<WakeCase> {
    let mut v = Vec::new();
    for a in 0..4 {
        v.push(WakeCase { when: vec![a], colliding: false, reuse: false });
        if a != 3 {
            v.push(WakeCase { when: vec![a], colliding: false, reuse: true });
        }
        for b in 0..4 {
            for colliding in [false, true] {
                v.push(WakeCase { when: vec![a, b], colliding, reuse: false });
            }
            if a != 3 {
                v.push(WakeCase { when: vec![a, b], colliding: false, reuse: true });
            }
            if tier == "thorough" || (a + b) % 2 == 0 {
                for c in 0..4 {
                    v.push(WakeCase { when: vec![a, b, c], colliding: (a + b + c) % 2 == 1, reuse: false });
                }
            }
        }
    }
    v
}

// ------------------------------------------------------------------------------------------
// C21

#[derive(Clone, Copy, Debug, PartialEq, Eq)]
pub enum IOp {
    WaitRead(usize),
    WaitWrite(usize),
    DelRead(usize),
    DelWrite(usize),
    DelEvent(usize),
    /// hooked shutdown: 0 = RD, 1 = WR, 2 = RDWR
    Shutdown(usize, usize),
    /// hooked close followed by a new socket on the same descriptor number
    CloseReopen(usize),
    /// make the descriptor readable and run one loop turn
    Fire(usize),
}

impl IOp {
    fn to_json(self) -> Value {
        let f = |s: usize| ["A", "B"][s];
        match self {
            IOp::WaitRead(s) => json!(format!("wait_read({})", f(s))),
            IOp::WaitWrite(s) => json!(format!("wait_write({})", f(s))),
            IOp::DelRead(s) => json!(format!("del_read({})", f(s))),
            IOp::DelWrite(s) => json!(format!("del_write({})", f(s))),
            IOp::DelEvent(s) => json!(format!("del_event({})", f(s))),
            IOp::Shutdown(s, h) => json!(format!("shutdown({},{})", f(s), ["RD", "WR", "RDWR"][h])),
            IOp::CloseReopen(s) => json!(format!("close+reopen({})", f(s))),
            IOp::Fire(s) => json!(format!("fire({})", f(s))),
        }
    }
    fn from_json(v: &Value) -> Option<IOp> {
        let s = v.as_str()?;
        let (name, arg) = s.split_once('(')?;
        let arg = arg.trim_end_matches(')');
        let slot = |a: &str| match a { "A" => Some(0), "B" => Some(1), _ => None };
        Some(match name {
            "wait_read" => IOp::WaitRead(slot(arg)?),
            "wait_write" => IOp::WaitWrite(slot(arg)?),
            "del_read" => IOp::DelRead(slot(arg)?),
            "del_write" => IOp::DelWrite(slot(arg)?),
            "del_event" => IOp::DelEvent(slot(arg)?),
            "close+reopen" => IOp::CloseReopen(slot(arg)?),
            "fire" => IOp::Fire(slot(arg)?),
            "shutdown" => {
                let (a, h) = arg.split_once(',')?;
                IOp::Shutdown(slot(a)?, ["RD", "WR", "RDWR"].iter().position(|x| *x == h)?)
            }
            _ => return None,
        })
    }
}

fn all_iops() -> Vec<IOp> {
    let mut v = Vec::new();
    for s in 0..2 {
        v.extend([IOp::WaitRead(s), IOp::WaitWrite(s), IOp::DelRead(s), IOp::DelWrite(s), IOp::DelEvent(s), IOp::Shutdown(s, 0), IOp::Shutdown(s, 1), IOp::Shutdown(s, 2), IOp::CloseReopen(s), IOp::Fire(s)]);
    }
    v
}

thread_local! {
    /// the two descriptors of the interest scenario are pipe read ends instead of sockets
    static PIPES: std::cell::Cell<bool> = const { std::cell::Cell::new(false) };
}

/// what epoll really holds: fd -> (read?, write?)
fn os_interest(epfd: i32) -> std::collections::BTreeMap<i32, (bool, bool)> {
    let mut m = std::collections::BTreeMap::new();
    let txt = std::fs::read_to_string(format!("/proc/self/fdinfo/{epfd}")).unwrap_or_default();
    for line in txt.lines() {
        if let Some(rest) = line.strip_prefix("tfd:") {
            let parts: Vec<&str> = rest.split_whitespace().collect();
            let fd: i32 = parts[0].parse().unwrap_or(-1);
            let ev = parts.iter().position(|p| *p == "events:").and_then(|i| parts.get(i + 1)).and_then(|h| u32::from_str_radix(h, 16).ok()).unwrap_or(0);
            let _ = m.insert(fd, (ev & 0x1 != 0, ev & 0x4 != 0));
        }
    }
    m
}

unsafe fn new_socket_at(num: i32) -> i32 {
    let mut sv = [0; 2];
    if PIPES.with(std::cell::Cell::get) {
        // a pipe: [read end, write end]
        assert_eq!(0, libc::pipe(sv.as_mut_ptr()));
    } else {
        assert_eq!(0, libc::socketpair(libc::AF_UNIX, libc::SOCK_STREAM, 0, sv.as_mut_ptr()));
    }
    if sv[0] != num {
        assert_eq!(num, libc::dup2(sv[0], num));
        libc::close(sv[0]);
    }
    sv[1]
}

fn run_interest(lp: &mut SyncLoop, hist: &[IOp], base: i32) -> Result<(), (String, String)> {
    let epfd = lp.selector_fd();
    let mut peers = unsafe { [new_socket_at(base), new_socket_at(base + 1)] };
    // reference: slot -> (read interest, write interest)
    let mut model = [(false, false); 2];
    let mut res = Ok(());
    for (k, op) in hist.iter().enumerate() {
        let fd = |s: usize| base + s as i32;
        match *op {
            IOp::WaitRead(s) => {
                if lp.add_read_event(fd(s)).is_ok() {
                    model[s].0 = true;
                }
            }
            IOp::WaitWrite(s) => {
                if lp.add_write_event(fd(s)).is_ok() {
                    model[s].1 = true;
                }
            }
            IOp::DelRead(s) => {
                let _ = lp.del_read_event(fd(s));
                model[s].0 = false;
            }
            IOp::DelWrite(s) => {
                let _ = lp.del_write_event(fd(s));
                model[s].1 = false;
            }
            IOp::DelEvent(s) => {
                let _ = lp.del_event(fd(s));
                model[s] = (false, false);
            }
            IOp::Shutdown(s, how) => {
                let _ = sc::shutdown(None, fd(s), [libc::SHUT_RD, libc::SHUT_WR, libc::SHUT_RDWR][how]);
                match how {
                    0 => model[s].0 = false,
                    1 => model[s].1 = false,
                    _ => model[s] = (false, false),
                }
            }
            IOp::CloseReopen(s) => {
                let _ = sc::close(None, fd(s));
                unsafe { libc::close(peers[s]) };
                peers[s] = unsafe { new_socket_at(fd(s)) };
                model[s] = (false, false);
            }
            IOp::Fire(s) => {
                let b = [1u8];
                let _ = unsafe { libc::write(peers[s], b.as_ptr().cast(), 1) };
                let _ = lp.wait_event(Some(Duration::ZERO));
            }
        }
        let os = os_interest(epfd);
        for s in 0..2 {
            let got = os.get(&fd(s)).copied().unwrap_or((false, false));
            if got != model[s] {
                let name = |x: (bool, bool)| match x { (false, false) => "none", (true, false) => "read", (false, true) => "write", (true, true) => "read+write" };
                let class = match op { IOp::CloseReopen(_) => "after-close-and-reuse", IOp::Shutdown(..) => "after-shutdown", IOp::Fire(_) => "after-event-delivery", IOp::DelRead(_) | IOp::DelWrite(_) | IOp::DelEvent(_) => "after-removal", _ => "after-wait" };
                res = Err((format!("os-interest-equals-outstanding-waits/{class}"), format!("op #{k} {}: epoll holds interest {} for descriptor {}, the outstanding waits are {}", op.to_json(), name(got), ["A", "B"][s], name(model[s]))));
                break;
            }
        }
        if res.is_err() {
            break;
        }
    }
    // clean up through the runtime so that nothing is left registered
    for s in 0..2 {
        let _ = lp.del_event(base + s as i32);
        let _ = sc::close(None, base + s as i32);
        unsafe { libc::close(peers[s]) };
    }
    res
}

#[derive(Clone)]
struct ICase {
    prefix: Vec<IOp>,
    depth: usize,
    pipes: bool,
}

fn exec_interest(c: &ICase, em: &mut Emitter) {
    std::panic::set_hook(Box::new(|_| {}));
    open_coroutine_core::verif::clock_enable(T0);
    let mut lp = SyncLoop::new("c21-loop", 128 * 1024, 0, 1, 0).expect("loop");
    lp.enter();
    PIPES.with(|p| p.set(c.pipes));
    // (shutdown is a socket operation)
    let ops: Vec<IOp> = all_iops().into_iter().filter(|o| !(c.pipes && matches!(o, IOp::Shutdown(..)))).collect();
    let mut frontier = std::collections::VecDeque::from([c.prefix.clone()]);
    let mut n = 0u64;
    let mut sigs: Vec<String> = Vec::new();
    while let Some(h) = frontier.pop_front() {
        em.emit(json!({"t":"at","h":h.iter().map(|o| o.to_json()).collect::<Vec<_>>()}));
        let base = 300 + 2 * ((n % 8000) as i32);
        n += 1;
        match run_interest(&mut lp, &h, base) {
            Ok(()) => {
                if h.len() < c.depth {
                    for op in &ops {
                        let mut x = h.clone();
                        x.push(*op);
                        frontier.push_back(x);
                    }
                }
            }
            Err((clause, detail)) => {
                if !sigs.contains(&clause) {
                    sigs.push(clause.clone());
                    em.emit(json!({"t":"viol","clause":clause,"detail":detail,"history":h.iter().map(|o| o.to_json()).collect::<Vec<_>>(),"pipes":c.pipes}));
                }
            }
        }
    }
    em.emit(json!({"t":"done","n":n}));
    lp.leave();
    lp.forget();
}

pub fn run(scen: &str, tier: &str, rep: &mut Report) -> bool {
    let cfg = RunCfg { hang_after: Duration::from_millis(5000), ..RunCfg::default() };
    match scen {
        "ep.wake" => {
            let cs = wake_cases(tier);
            rep.bounds = json!({"waiters": "1..=3", "readiness_instants": WHEN, "id_shapes": ["distinct ids", "two ids that collide when folded to 32 bits (found by brute force over names)"], "descriptor_reuse": true, "cases": cs.len()});
            rep.require(&["callback_wakes_seen", "colliding_ids_found"]);
            for c in cs.iter().step_by((cs.len() / 4).max(1)).take(4) {
                rep.sample(c.to_json());
            }
            let budget = Budget::secs(if tier == "thorough" { 900 } else { 50 });
            sweep(&cs, 1, rep, &cfg, &budget, exec_wake, judge_wake);
            rep.states = rep.evaluations;
            rep.transitions = rep.evaluations * 8;
        }
        "ep.interest" => {
            let depth = if tier == "thorough" { 5 } else { 4 };
            let mut cases = vec![ICase { prefix: vec![], depth: 0, pipes: false }];
            for op in all_iops() {
                cases.push(ICase { prefix: vec![op], depth, pipes: false });
                // the same histories over two pipe read ends (descriptors that are not sockets)
                if !matches!(op, IOp::Shutdown(..)) {
                    cases.push(ICase { prefix: vec![op], depth: depth - 1, pipes: true });
                }
            }
            rep.bounds = json!({"descriptors": 2, "depth": depth, "ops": all_iops().iter().take(10).map(|o| o.to_json()).collect::<Vec<_>>(), "observation": "/proc/self/fdinfo/<epoll fd> after every operation", "dedup": "none", "descriptor_kinds": "two sockets (full depth); two pipe read ends (depth - 1, without shutdown)"});
            let budget = Budget::secs(if tier == "thorough" { 1500 } else { 50 });
            let mut total = 0u64;
            sweep(&cases, 1, rep, &cfg, &budget, exec_interest, |_, res: &ChildResult, rep| {
                if !res.exit.ok() {
                    let at = res.last("at").map(|a| a["h"].clone()).unwrap_or(json!([]));
                    rep.violation(&format!("ep.interest/process-survives/{}", res.exit.describe()), format!("history {at}: the process {}", res.exit.describe()), json!({"engine":"seqx","scenario":"ep.interest","history":at}));
                    return;
                }
                for v in res.find("viol") {
                    let kind = if v["pipes"] == true { ":pipe" } else { "" };
                    rep.violation(&format!("ep.interest/{}{kind}", v["clause"].as_str().unwrap()), format!("history {} on {}: {}", v["history"], if v["pipes"] == true { "two pipe read ends" } else { "two sockets" }, v["detail"].as_str().unwrap()), json!({"engine":"seqx","scenario":"ep.interest","history":v["history"],"pipes":v["pipes"]}));
                }
                if let Some(d) = res.last("done") {
                    total += d["n"].as_u64().unwrap_or(0);
                }
            });
            rep.sample(json!({"history": ["wait_read(A)", "wait_write(A)", "del_read(A)", "fire(A)"]}));
            rep.evaluations = total;
            rep.states = total;
            rep.transitions = total.saturating_sub(1);
            for i in 0..total.min(5000) {
                let _ = rep.nontrivial.insert(format!("{i}"));
            }
        }
        _ => return false,
    }
    true
}

pub fn replay(v: &Value, em: &mut Emitter) -> bool {
    if let Some(c) = v.get("case").and_then(WakeCase::from_json) {
        exec_wake(&c, em);
        return true;
    }
    if let Some(h) = v.get("history").and_then(Value::as_array) {
        let h: Vec<IOp> = h.iter().filter_map(IOp::from_json).collect();
        PIPES.with(|p| p.set(v.get("pipes").and_then(Value::as_bool).unwrap_or(false)));
        open_coroutine_core::verif::clock_enable(T0);
        let mut lp = SyncLoop::new("c21-loop", 128 * 1024, 0, 1, 0).expect("loop");
        lp.enter();
        match run_interest(&mut lp, &h, 300) {
            Ok(()) => em.emit(json!({"t":"ok"})),
            Err((c, d)) => em.emit(json!({"t":"viol","clause":c,"detail":d})),
        }
        lp.leave();
        lp.forget();
        return true;
    }
    false
}
