//! C16 / C17 / C18 – hooked socket I/O under a scripted kernel.
//! One enumeration, three oracles. The "kernel" is an `extern "C"` function handed in as `fn_ptr`
//! (every layer of the syscall chain takes the real function that way); a real socketpair end
//! supplies fstat/fcntl/getsockopt; readiness waits are answered through the verif wait seam.
use crate::explore::{sweep, Budget};
use crate::report::Report;
use crate::runner::{ChildResult, Emitter, RunCfg};
use open_coroutine_core::common::now;
use open_coroutine_core::syscall as sc;
use serde_json::{json, Value};
use std::cell::RefCell;
use std::ffi::{c_int, c_void};
use std::time::Duration;

const T0: u64 = 1_000_000_000_000;
const MS: u64 = 1_000_000;

#[derive(Clone, Copy, Debug, PartialEq, Eq, Hash)]
pub enum Ans {
    All,
    Part(usize),
    Zero,
    /// would block; the readiness wait that follows is answered by the second field:
    /// 0 = ready, 1 = nothing became ready (time passes), 2 = the wait fails
    Eagain(u8),
    Eintr,
    Reset,
}

impl Ans {
    fn to_s(self) -> String {
        match self {
            Ans::All => "All".into(),
            Ans::Part(k) => format!("Part({k})"),
            Ans::Zero => "Zero".into(),
            Ans::Eagain(0) => "EAGAIN+ready".into(),
            Ans::Eagain(1) => "EAGAIN+nothing-ready".into(),
            Ans::Eagain(_) => "EAGAIN+wait-error".into(),
            Ans::Eintr => "EINTR".into(),
            Ans::Reset => "ECONNRESET".into(),
        }
    }
    fn from_s(s: &str) -> Option<Ans> {
        Some(match s {
            "All" => Ans::All,
            "Zero" => Ans::Zero,
            "EAGAIN+ready" => Ans::Eagain(0),
            "EAGAIN+nothing-ready" => Ans::Eagain(1),
            "EAGAIN+wait-error" => Ans::Eagain(2),
            "EINTR" => Ans::Eintr,
            "ECONNRESET" => Ans::Reset,
            p => Ans::Part(p.strip_prefix("Part(")?.trim_end_matches(')').parse().ok()?),
        })
    }
}

pub const CALLS: [&str; 10] = ["read", "recv", "recvfrom", "readv", "recvmsg", "write", "send", "sendto", "writev", "sendmsg"];

fn is_write(call: &str) -> bool {
    matches!(call, "write" | "send" | "sendto" | "writev" | "sendmsg")
}
fn is_vec(call: &str) -> bool {
    matches!(call, "readv" | "recvmsg" | "writev" | "sendmsg")
}

#[derive(Clone, Debug)]
pub struct Case {
    call: &'static str,
    /// buffer lengths (one entry for the single-buffer calls)
    shape: Vec<usize>,
    nonblocking: bool,
    /// SO_RCVTIMEO / SO_SNDTIMEO of 15 ms set (otherwise unlimited)
    timeout: bool,
    script: Vec<Ans>,
    /// errno as the caller left it before the call (a real kernel does not touch errno on success)
    entry_errno: i32,
    /// recvmsg/sendmsg only: the message header carries an ancillary-data buffer
    ctl: bool,
    /// recv/recvfrom/recvmsg only: the caller passes MSG_WAITALL
    waitall: bool,
}

impl Case {
    fn to_json(&self) -> Value {
        json!({"call": self.call, "shape": self.shape, "nonblocking": self.nonblocking, "timeout_15ms": self.timeout, "script": self.script.iter().map(|a| a.to_s()).collect::<Vec<_>>(), "entry_errno": self.entry_errno, "ancillary_buffer": self.ctl, "msg_waitall": self.waitall})
    }
    fn from_json(v: &Value) -> Option<Case> {
        Some(Case {
            call: CALLS.iter().copied().find(|c| Some(*c) == v.get("call").and_then(Value::as_str))?,
            shape: v.get("shape")?.as_array()?.iter().map(|x| x.as_u64().map(|x| x as usize)).collect::<Option<Vec<_>>>()?,
            nonblocking: v.get("nonblocking")?.as_bool()?,
            timeout: v.get("timeout_15ms")?.as_bool()?,
            script: v.get("script")?.as_array()?.iter().map(|a| a.as_str().and_then(Ans::from_s)).collect::<Option<Vec<_>>>()?,
            entry_errno: v.get("entry_errno").and_then(Value::as_i64).unwrap_or(0) as i32,
            ctl: v.get("ancillary_buffer").and_then(Value::as_bool).unwrap_or(false),
            waitall: v.get("msg_waitall").and_then(Value::as_bool).unwrap_or(false),
        })
    }
}

#[derive(Default)]
struct Kernel {
    write: bool,
    script: Vec<Ans>,
    pos: usize,
    /// caller buffers (address, len), in order
    bufs: Vec<(usize, usize)>,
    /// bytes the kernel has moved so far
    moved: usize,
    /// flat positions (in the caller's concatenated buffers) already transferred
    done_at: Vec<bool>,
    sink: Vec<u8>,
    inner_calls: u32,
    waits: u32,
    wait_time: u64,
    pending_wait: Option<u8>,
    last_errno: i32,
    last_was_eof: bool,
    c17: Option<(String, String)>, // (clause, detail)
    reqs: Vec<String>,
}

thread_local! {
    static K: RefCell<Kernel> = RefCell::new(Kernel::default());
}

fn stream_byte(i: usize) -> u8 {
    (i % 251 + 1) as u8
}

/// The kernel's view of one transfer request: `ranges` are the (address, len) entries it was
/// handed, `declared` the element count.
fn kernel_io(ranges: &[(usize, usize)], declared: usize, vectored: bool) -> isize {
    K.with(|k| {
        let mut k = k.borrow_mut();
        k.inner_calls += 1;
        let total: usize = k.bufs.iter().map(|b| b.1).sum();
        // ---- C17: every entry inside the caller's buffers, only unfilled bytes, in order
        let mut desc = Vec::new();
        let mut valid: Vec<(usize, usize)> = Vec::new();
        let mut flats: Vec<usize> = Vec::new();
        let mut cursor = 0usize; // flat position (in the caller's concatenated buffers) expected next
        let mut expected_entries = 0usize;
        {
            // number of caller iovecs not yet completely filled (zero-length ones after the
            // cursor count as pending entries too, the kernel skips them)
            let mut flat = 0usize;
            for (_, l) in &k.bufs {
                if flat + l > k.moved || (*l == 0 && flat >= k.moved) {
                    expected_entries += 1;
                }
                flat += l;
            }
        }
        for (idx, (addr, len)) in ranges.iter().enumerate() {
            let mut flat = 0usize;
            let mut found = None;
            for (bi, (ba, bl)) in k.bufs.iter().enumerate() {
                if *addr >= *ba && addr + len <= ba + bl && (*len > 0 || *addr <= ba + bl) && (*bl > 0 || *addr == *ba) {
                    found = Some((bi, addr - ba, flat + (addr - ba)));
                    // prefer the buffer in which the entry really lies (adjacent buffers may touch)
                    if *len > 0 || flat + (addr - ba) >= cursor {
                        break;
                    }
                }
                flat += bl;
            }
            match found {
                Some((bi, off, fstart)) => {
                    desc.push(format!("buf{bi}+{off}..{}", off + len));
                    if *len > 0 {
                        let again = (fstart..fstart + len).find(|p| k.done_at.get(*p).copied().unwrap_or(false));
                        if let (Some(pos), true, true) = (again, vectored, k.c17.is_none()) {
                            k.c17 = Some(("only-unfilled-ranges".into(), format!("inner call #{}: entry {idx} = buf{bi}+{off}..{} covers the caller's byte {pos}, which was already {} ({} byte(s) moved so far)", k.inner_calls, off + len, if k.write { "sent" } else { "filled" }, k.moved)));
                        } else if fstart < cursor && vectored && k.c17.is_none() && idx > 0 {
                            k.c17 = Some(("ranges-in-order".into(), format!("inner call #{}: entry {idx} = buf{bi}+{off}..{} overlaps or precedes the previous entry", k.inner_calls, off + len)));
                        }
                        cursor = cursor.max(fstart + len);
                        valid.push((*addr, *len));
                        flats.push(fstart);
                    }
                }
                None => {
                    desc.push("OUTSIDE".to_string());
                    if vectored && k.c17.is_none() {
                        k.c17 = Some(("ranges-inside-caller-buffers".into(), format!("inner call #{}: entry {idx} of the {declared} declared does not lie inside any caller buffer (element count does not match the array passed, or a wrong base address)", k.inner_calls)));
                    }
                }
            }
        }
        let _ = (expected_entries, total);
        let cap: usize = valid.iter().map(|v| v.1).sum();
        let ans = if k.pos < k.script.len() { k.script[k.pos] } else { Ans::All };
        k.pos += 1;
        k.reqs.push(format!("{desc:?}->{}", ans.to_s()));
        k.last_was_eof = false;
        let n = match ans {
            Ans::All => cap,
            Ans::Part(p) => p.min(cap),
            Ans::Zero => {
                k.last_was_eof = true;
                0
            }
            Ans::Eagain(w) => {
                k.pending_wait = Some(w);
                k.last_errno = libc::EAGAIN;
                sc::set_errno(libc::EAGAIN);
                return -1;
            }
            Ans::Eintr => {
                k.last_errno = libc::EINTR;
                sc::set_errno(libc::EINTR);
                return -1;
            }
            Ans::Reset => {
                k.last_errno = libc::ECONNRESET;
                sc::set_errno(libc::ECONNRESET);
                return -1;
            }
        };
        // move n bytes through the ranges, in order
        let mut left = n;
        let mut seq = k.moved;
        for ((addr, len), fstart) in valid.into_iter().zip(flats) {
            if left == 0 {
                break;
            }
            let take = left.min(len);
            for i in 0..take {
                unsafe {
                    if k.write {
                        let b = *((addr + i) as *const u8);
                        k.sink.push(b);
                    } else {
                        *((addr + i) as *mut u8) = stream_byte(seq);
                    }
                }
                seq += 1;
                if let Some(d) = k.done_at.get_mut(fstart + i) {
                    *d = true;
                }
            }
            left -= take;
        }
        k.moved += n;
        // like a real kernel: errno is left alone when the call succeeds
        n as isize
    })
}

fn wait_hook(_fd: i32, _write: bool, timeout_ns: u64) -> i32 {
    K.with(|k| {
        let mut k = k.borrow_mut();
        k.waits += 1;
        let w = k.pending_wait.take().unwrap_or(0);
        match w {
            0 => 1,
            1 => {
                k.wait_time += timeout_ns;
                open_coroutine_core::verif::clock_set(now().saturating_add(timeout_ns));
                1
            }
            _ => 2,
        }
    })
}

extern "C" fn k_read(_: c_int, buf: *mut c_void, len: libc::size_t) -> libc::ssize_t {
    kernel_io(&[(buf as usize, len)], 1, false)
}
extern "C" fn k_recv(_: c_int, buf: *mut c_void, len: libc::size_t, _: c_int) -> libc::ssize_t {
    kernel_io(&[(buf as usize, len)], 1, false)
}
extern "C" fn k_recvfrom(_: c_int, buf: *mut c_void, len: libc::size_t, _: c_int, _: *mut libc::sockaddr, _: *mut libc::socklen_t) -> libc::ssize_t {
    kernel_io(&[(buf as usize, len)], 1, false)
}
extern "C" fn k_write(_: c_int, buf: *const c_void, len: libc::size_t) -> libc::ssize_t {
    kernel_io(&[(buf as usize, len)], 1, false)
}
extern "C" fn k_send(_: c_int, buf: *const c_void, len: libc::size_t, _: c_int) -> libc::ssize_t {
    kernel_io(&[(buf as usize, len)], 1, false)
}
extern "C" fn k_sendto(_: c_int, buf: *const c_void, len: libc::size_t, _: c_int, _: *const libc::sockaddr, _: libc::socklen_t) -> libc::ssize_t {
    kernel_io(&[(buf as usize, len)], 1, false)
}
fn iov_ranges(iov: *const libc::iovec, cnt: usize) -> Vec<(usize, usize)> {
    // like the kernel, read as many entries as were declared (bounded, for the harness' safety);
    // an entry in unreadable memory is what the kernel would answer EFAULT to: reported as (0, 0)
    thread_local! { static NULLFD: i32 = unsafe { libc::open(b"/dev/null\0".as_ptr().cast(), libc::O_WRONLY) }; }
    (0..cnt.min(16))
        .map(|i| unsafe {
            let p = iov.add(i);
            let readable = NULLFD.with(|fd| libc::write(*fd, p.cast(), size_of::<libc::iovec>())) == size_of::<libc::iovec>() as isize;
            if readable { ((*p).iov_base as usize, (*p).iov_len) } else { (1, 1) }
        })
        .collect()
}
extern "C" fn k_readv(_: c_int, iov: *const libc::iovec, cnt: c_int) -> libc::ssize_t {
    kernel_io(&iov_ranges(iov, cnt as usize), cnt as usize, true)
}
extern "C" fn k_writev(_: c_int, iov: *const libc::iovec, cnt: c_int) -> libc::ssize_t {
    kernel_io(&iov_ranges(iov, cnt as usize), cnt as usize, true)
}
extern "C" fn k_recvmsg(_: c_int, msg: *mut libc::msghdr, _: c_int) -> libc::ssize_t {
    let (iov, cnt) = unsafe { ((*msg).msg_iov, (*msg).msg_iovlen as usize) };
    kernel_io(&iov_ranges(iov, cnt), cnt, true)
}
extern "C" fn k_sendmsg(_: c_int, msg: *const libc::msghdr, _: c_int) -> libc::ssize_t {
    let (iov, cnt) = unsafe { ((*msg).msg_iov, (*msg).msg_iovlen as usize) };
    kernel_io(&iov_ranges(iov, cnt), cnt, true)
}

pub struct Socks {
    plain: c_int,
    timed: c_int,
}

pub fn open_socks() -> Socks {
    unsafe {
        let mut a = [0; 2];
        let mut b = [0; 2];
        assert_eq!(0, libc::socketpair(libc::AF_UNIX, libc::SOCK_STREAM, 0, a.as_mut_ptr()));
        assert_eq!(0, libc::socketpair(libc::AF_UNIX, libc::SOCK_STREAM, 0, b.as_mut_ptr()));
        let tv = libc::timeval { tv_sec: 0, tv_usec: 15_000 };
        for name in [libc::SO_RCVTIMEO, libc::SO_SNDTIMEO] {
            assert_eq!(0, libc::setsockopt(b[0], libc::SOL_SOCKET, name, std::ptr::from_ref(&tv).cast(), size_of::<libc::timeval>() as u32));
        }
        Socks { plain: a[0], timed: b[0] }
    }
}

#[derive(Debug)]
pub struct Viol {
    property: &'static str,
    clause: String,
    class: String,
    detail: String,
}

/// Run one case in-process and judge it. Returns the violations (at most one per property).
pub fn run_case(c: &Case, socks: &Socks) -> (Vec<Viol>, Vec<String>) {
    let fd = if c.timeout { socks.timed } else { socks.plain };
    let write = is_write(c.call);
    // caller buffers: separate allocations with guard space, distinctive fill
    let mut store: Vec<Vec<u8>> = c.shape.iter().map(|l| vec![0xEE; *l + 8]).collect();
    let mut out_data: Vec<u8> = Vec::new();
    for (bi, (b, l)) in store.iter_mut().zip(c.shape.iter()).enumerate() {
        for i in 0..*l {
            let v = if write { (0x10 + bi * 0x20 + i) as u8 } else { 0xEE };
            b[4 + i] = v;
            if write {
                out_data.push(v);
            }
        }
    }
    let bufs: Vec<(usize, usize)> = store.iter().zip(c.shape.iter()).map(|(b, l)| (b.as_ptr() as usize + 4, *l)).collect();
    let total: usize = c.shape.iter().sum();
    K.with(|k| *k.borrow_mut() = Kernel { write, script: c.script.clone(), bufs: bufs.clone(), done_at: vec![false; total], ..Kernel::default() });
    open_coroutine_core::verif::clock_set(T0);
    unsafe {
        let fl = libc::fcntl(fd, libc::F_GETFL);
        let fl = if c.nonblocking { fl | libc::O_NONBLOCK } else { fl & !libc::O_NONBLOCK };
        libc::fcntl(fd, libc::F_SETFL, fl);
    }
    let flags_before = unsafe { libc::fcntl(fd, libc::F_GETFL) };
    let iov: Vec<libc::iovec> = bufs.iter().map(|(a, l)| libc::iovec { iov_base: *a as *mut c_void, iov_len: *l }).collect();
    let mut ctl_buf = [0u64; 4];
    let (ctl_ptr, ctl_len) = if c.ctl { (ctl_buf.as_mut_ptr().cast::<c_void>(), 24usize) } else { (std::ptr::null_mut(), 0) };
    let rflags = if c.waitall { libc::MSG_WAITALL } else { 0 };
    sc::set_errno(c.entry_errno);
    let ret: isize = match c.call {
        "read" => { let f: extern "C" fn(c_int, *mut c_void, usize) -> isize = k_read; sc::read(Some(&f), fd, bufs[0].0 as *mut c_void, bufs[0].1) }
        "recv" => { let f: extern "C" fn(c_int, *mut c_void, usize, c_int) -> isize = k_recv; sc::recv(Some(&f), fd, bufs[0].0 as *mut c_void, bufs[0].1, rflags) }
        "recvfrom" => { let f: extern "C" fn(c_int, *mut c_void, usize, c_int, *mut libc::sockaddr, *mut libc::socklen_t) -> isize = k_recvfrom; sc::recvfrom(Some(&f), fd, bufs[0].0 as *mut c_void, bufs[0].1, rflags, std::ptr::null_mut(), std::ptr::null_mut()) }
        "write" => { let f: extern "C" fn(c_int, *const c_void, usize) -> isize = k_write; sc::write(Some(&f), fd, bufs[0].0 as *const c_void, bufs[0].1) }
        "send" => { let f: extern "C" fn(c_int, *const c_void, usize, c_int) -> isize = k_send; sc::send(Some(&f), fd, bufs[0].0 as *const c_void, bufs[0].1, 0) }
        "sendto" => { let f: extern "C" fn(c_int, *const c_void, usize, c_int, *const libc::sockaddr, libc::socklen_t) -> isize = k_sendto; sc::sendto(Some(&f), fd, bufs[0].0 as *const c_void, bufs[0].1, 0, std::ptr::null(), 0) }
        "readv" => { let f: extern "C" fn(c_int, *const libc::iovec, c_int) -> isize = k_readv; sc::readv(Some(&f), fd, iov.as_ptr(), iov.len() as c_int) }
        "writev" => { let f: extern "C" fn(c_int, *const libc::iovec, c_int) -> isize = k_writev; sc::writev(Some(&f), fd, iov.as_ptr(), iov.len() as c_int) }
        "recvmsg" => {
            let f: extern "C" fn(c_int, *mut libc::msghdr, c_int) -> isize = k_recvmsg;
            let mut m: libc::msghdr = unsafe { std::mem::zeroed() };
            m.msg_iov = iov.as_ptr().cast_mut();
            m.msg_iovlen = iov.len();
            m.msg_control = ctl_ptr;
            m.msg_controllen = ctl_len;
            sc::recvmsg(Some(&f), fd, &mut m, rflags)
        }
        "sendmsg" => {
            let f: extern "C" fn(c_int, *const libc::msghdr, c_int) -> isize = k_sendmsg;
            let mut m: libc::msghdr = unsafe { std::mem::zeroed() };
            m.msg_iov = iov.as_ptr().cast_mut();
            m.msg_iovlen = iov.len();
            m.msg_control = ctl_ptr;
            m.msg_controllen = ctl_len;
            sc::sendmsg(Some(&f), fd, &m, 0)
        }
        _ => unreachable!(),
    };
    let errno = std::io::Error::last_os_error().raw_os_error().unwrap_or(0);
    let flags_after = unsafe { libc::fcntl(fd, libc::F_GETFL) };
    let vtime = now() - T0;
    let k = K.with(|k| std::mem::take(&mut *k.borrow_mut()));
    let mut viols = Vec::new();
    let fam = if is_vec(c.call) { "vectored" } else { "single-buffer" };
    let dir = if write { "write" } else { "read" };
    // ---------------- C16
    let moved = k.moved;
    let c16 = (|| -> Option<(String, String)> {
        if total == 0 {
            // a zero-length request returns 0
            if ret != 0 {
                return Some(("zero-length-request-returns-0".into(), format!("returned {ret} (errno {errno})")));
            }
            return None;
        }
        if moved > 0 {
            if ret != moved as isize {
                let why = if ret == -1 { "bytes-moved-but-minus-one".to_string() } else if (ret as usize) < moved { "returns-less-than-moved".into() } else { "returns-more-than-moved".into() };
                return Some((format!("return-equals-bytes-moved:{why}"), format!("the kernel moved {moved} byte(s) in this call, the call returned {ret} (errno {errno})")));
            }
        } else if k.inner_calls > 0 && k.last_was_eof {
            if ret != 0 {
                return Some(("end-of-stream-returns-0".into(), format!("nothing moved and the kernel reported end of stream, the call returned {ret} (errno {errno})")));
            }
        } else if k.inner_calls > 0 {
            // nothing moved and the last kernel answer was an error
            if ret != -1 {
                return Some(("minus-one-when-nothing-moved-and-failed".into(), format!("nothing moved, the last kernel answer was errno {}, the call returned {ret} (a 0 looks like end of stream)", k.last_errno)));
            }
            // (after a failed readiness wait the errno is the wait's business)
            let wait_failed = c.script.iter().take(k.inner_calls as usize).any(|a| *a == Ans::Eagain(2));
            if errno != k.last_errno && !wait_failed {
                return Some(("errno-from-the-failing-call".into(), format!("nothing moved, the failing kernel answer was errno {}, the call reports errno {errno}", k.last_errno)));
            }
        } else if ret != -1 && ret != 0 {
            return Some(("return-equals-bytes-moved:returns-more-than-moved".into(), format!("the kernel was never asked, the call returned {ret}")));
        }
        // the bytes moved are the next bytes of the stream, in order, none twice
        if write {
            if k.sink != out_data[..moved.min(out_data.len())] {
                return Some(("stream-order:write".into(), format!("the kernel received {:02x?}, the caller's first {moved} byte(s) are {:02x?}", k.sink, &out_data[..moved.min(out_data.len())])));
            }
        } else {
            let mut got = Vec::new();
            for (b, l) in store.iter().zip(c.shape.iter()) {
                got.extend_from_slice(&b[4..4 + l]);
            }
            for (i, g) in got.iter().enumerate() {
                let want = if i < moved { stream_byte(i) } else { 0xEE };
                if *g != want {
                    return Some(("stream-order:read".into(), format!("caller byte {i} is {g:#04x}, expected {want:#04x} ({moved} byte(s) moved; buffers {got:02x?})")));
                }
            }
            for b in &store {
                let l = b.len();
                if b[..4] != [0xEE; 4] || b[l - 4..] != [0xEE; 4] {
                    return Some(("stream-order:read".into(), "bytes were written outside a caller buffer".to_string()));
                }
            }
        }
        None
    })();
    if let Some((clause, detail)) = c16 {
        viols.push(Viol { property: "C16", clause, class: format!("{dir}:{fam}"), detail: format!("{detail}; kernel requests {:?}", k.reqs) });
    }
    // ---------------- C17
    if let Some((clause, detail)) = k.c17 {
        viols.push(Viol { property: "C17", clause, class: c.call.to_string(), detail: format!("{detail}; kernel requests {:?}", k.reqs) });
    }
    // ---------------- C18
    if flags_after != flags_before {
        viols.push(Viol { property: "C18", clause: "blocking-mode-restored".into(), class: format!("{}:{}", if c.nonblocking { "nonblocking" } else { "blocking" }, if ret == -1 { "error-path" } else { "success-path" }), detail: format!("F_GETFL before {flags_before:#o}, after {flags_after:#o}; kernel requests {:?}", k.reqs) });
    } else if c.nonblocking && matches!(c.script.first(), Some(Ans::Eagain(_))) && total > 0 {
        if k.waits > 0 || vtime > 0 || !(ret == -1 && errno == libc::EAGAIN) {
            viols.push(Viol { property: "C18", clause: "nonblocking-returns-eagain-immediately".into(), class: format!("{dir}:{fam}"), detail: format!("the caller's descriptor is O_NONBLOCK and the kernel answered EAGAIN first: the call waited {} time(s) ({vtime}ns of virtual time) and returned {ret} (errno {errno})", k.waits) });
        }
    }
    let mut wit = Vec::new();
    if k.inner_calls >= 2 {
        wit.push("cases_with_retries".to_string());
    }
    if k.waits > 0 {
        wit.push("wait_seam_consulted".to_string());
    }
    if moved > 0 && moved < total {
        wit.push("partial_transfers".to_string());
    }
    (viols, wit)
}

fn shapes(call: &str) -> Vec<Vec<usize>> {
    if is_vec(call) {
        vec![vec![], vec![0], vec![4], vec![2, 2], vec![1, 0, 3], vec![3, 1, 2]]
    } else {
        vec![vec![0], vec![1], vec![4]]
    }
}

fn alphabet(shape: &[usize], reduced: bool) -> Vec<Ans> {
    let b = shape.iter().copied().find(|l| *l > 0).unwrap_or(0);
    let total: usize = shape.iter().sum();
    let mut parts: Vec<usize> = vec![1, b.saturating_sub(1), b, b + 1];
    parts.retain(|p| *p > 0 && *p < total);
    parts.sort_unstable();
    parts.dedup();
    let mut v = vec![Ans::All];
    if reduced {
        if let Some(p) = parts.first() {
            v.push(Ans::Part(*p));
        }
        if parts.len() > 1 {
            v.push(Ans::Part(*parts.last().unwrap()));
        }
        v.extend([Ans::Eagain(0), Ans::Eintr, Ans::Reset]);
    } else {
        v.extend(parts.into_iter().map(Ans::Part));
        v.extend([Ans::Zero, Ans::Eagain(0), Ans::Eagain(1), Ans::Eagain(2), Ans::Eintr, Ans::Reset]);
    }
    v
}

fn scripts(alpha: &[Ans], depth: usize) -> Vec<Vec<Ans>> {
    let mut out = vec![vec![]];
    let mut level = vec![vec![]];
    for _ in 0..depth {
        let mut next = Vec::new();
        for s in &level {
            for a in alpha {
                let mut t: Vec<Ans> = s.clone();
                t.push(*a);
                next.push(t);
            }
        }
        out.extend(next.iter().cloned());
        level = next;
    }
    out
}

fn depths(tier: &str) -> (usize, usize) {
    if tier == "thorough" { (5, 7) } else { (4, 5) }
}

pub fn cases(tier: &str) -> Vec<Case> {
    let (dfull, dred) = depths(tier);
    let mut v = Vec::new();
    for call in CALLS {
        let msg = matches!(call, "recvmsg" | "sendmsg");
        for shape in shapes(call) {
            let full = alphabet(&shape, false);
            let red = alphabet(&shape, true);
            let mut ss = scripts(&full, dfull);
            let have: std::collections::HashSet<Vec<Ans>> = ss.iter().cloned().collect();
            for s in scripts(&red, dred) {
                if !have.contains(&s) {
                    ss.push(s);
                }
            }
            // a kernel answers a zero-length request with 0 and nothing else
            if shape.iter().sum::<usize>() == 0 {
                ss.retain(Vec::is_empty);
            }
            for script in ss {
                for nonblocking in [false, true] {
                    // a non-blocking descriptor gets exactly one kernel call: longer scripts add nothing
                    if nonblocking && script.len() > 1 {
                        continue;
                    }
                    for timeout in [false, true] {
                        // the timeout setting only matters when a wait lets time pass
                        if timeout && !script.contains(&Ans::Eagain(1)) {
                            continue;
                        }
                        for entry_errno in [0, libc::EAGAIN, libc::EINTR] {
                            if entry_errno != 0 && (script.len() > dfull.min(3) || timeout) {
                                continue;
                            }
                            for ctl in [false, true] {
                                if ctl && (!msg || script.len() > 2 || entry_errno != 0) {
                                    continue;
                                }
                                v.push(Case { call, shape: shape.clone(), nonblocking, timeout, script: script.clone(), entry_errno, ctl, waitall: false });
                            }
                            // the receive family with MSG_WAITALL (a caller that wants the buffers filled)
                            if matches!(call, "recv" | "recvfrom" | "recvmsg") && script.len() <= 3 && entry_errno == 0 && !timeout {
                                v.push(Case { call, shape: shape.clone(), nonblocking, timeout, script: script.clone(), entry_errno, ctl: false, waitall: true });
                            }
                        }
                    }
                }
            }
        }
    }
    v
}

#[derive(Clone)]
struct Batch {
    cases: Vec<Case>,
}

fn exec(b: &Batch, em: &mut Emitter) {
    std::panic::set_hook(Box::new(|_| {}));
    open_coroutine_core::verif::clock_enable(T0);
    open_coroutine_core::verif::set_wait_hook(Some(wait_hook));
    let socks = open_socks();
    let mut n = 0u64;
    let mut wit: std::collections::BTreeMap<String, u64> = std::collections::BTreeMap::new();
    let mut sigs: Vec<String> = Vec::new();
    for (i, c) in b.cases.iter().enumerate() {
        em.emit(json!({"t":"at","i":i}));
        let (viols, w) = run_case(c, &socks);
        n += 1;
        for x in w {
            *wit.entry(x).or_insert(0) += 1;
        }
        for v in viols {
            let sig = format!("{}/{}/{}", v.property, v.clause, v.class);
            let first = !sigs.contains(&sig);
            if first {
                sigs.push(sig);
            }
            em.emit(json!({"t":"viol","first":first,"property":v.property,"clause":v.clause,"class":v.class,"detail": if first { v.detail } else { String::new() },"case": if first { c.to_json() } else { json!(null) }}));
        }
    }
    em.emit(json!({"t":"done","n":n,"witnesses":wit}));
}

pub fn run(scen: &str, tier: &str, rep: &mut Report) {
    let all = cases(tier);
    let batches: Vec<Batch> = all.chunks(2000).map(|c| Batch { cases: c.to_vec() }).collect();
    rep.bounds = json!({"calls": CALLS, "shapes": {"single_buffer": [0, 1, 4], "iovecs": [[], [0], [4], [2, 2], [1, 0, 3], [3, 1, 2]]},
        "answers": "All | Part(k) for k in {1, b-1, b, b+1} | Zero | EAGAIN followed by a wait that is ready / lets time pass / fails | EINTR | ECONNRESET",
        "script_depth": format!("{} over the full alphabet, {} over {{All, Part(min), Part(max), EAGAIN+ready, EINTR, ECONNRESET}}; answers after the script are All", depths(tier).0, depths(tier).1),
        "errno_on_entry": "0, EAGAIN, EINTR (scripts of <= 3 answers); the scripted kernel leaves errno alone on success",
        "ancillary_buffer": "recvmsg/sendmsg with and without a 24-byte msg_control (scripts of <= 2 answers)",
        "msg_waitall": "recv/recvfrom/recvmsg also with MSG_WAITALL (scripts of <= 3 answers)",
        "modes": ["blocking", "non-blocking"], "socket_timeouts": ["unset", "15 ms"], "cases": all.len()});
    rep.require(&["cases_with_retries", "wait_seam_consulted", "partial_transfers"]);
    for c in all.iter().step_by((all.len() / 4).max(1)).take(4) {
        rep.sample(c.to_json());
    }
    let cfg = RunCfg { hang_after: Duration::from_millis(4000), ..RunCfg::default() };
    let budget = Budget::secs(if tier == "thorough" { 1500 } else { 50 });
    let scen_s = scen.to_string();
    let mut total = 0u64;
    sweep(&batches, 1, rep, &cfg, &budget, exec, |b, res: &ChildResult, rep| {
        if !res.exit.ok() {
            let i = res.last("at").and_then(|a| a["i"].as_u64()).unwrap_or(0) as usize;
            let c = &b.cases[i.min(b.cases.len() - 1)];
            rep.violation_for("C16", &format!("{scen_s}/process-survives/{}:{}", res.exit.describe(), c.call), format!("{}: the process {} inside the hooked call", c.to_json(), res.exit.describe()),
                json!({"engine":"seqx","scenario":scen_s,"case":c.to_json()}));
            return;
        }
        for v in res.find("viol") {
            let prop = ["C16", "C17", "C18"].iter().copied().find(|p| Some(*p) == v["property"].as_str()).unwrap_or("C16");
            let sig = format!("{scen_s}/{}/{}", v["clause"].as_str().unwrap(), v["class"].as_str().unwrap());
            if v["first"].as_bool().unwrap_or(false) && !rep.has_sig(&sig) {
                rep.violation_for(prop, &sig, format!("{}: {}", v["case"], v["detail"].as_str().unwrap()), json!({"engine":"seqx","scenario":scen_s,"case":v["case"]}));
            } else {
                rep.violation_for(prop, &sig, String::new(), json!(null));
            }
        }
        if let Some(d) = res.last("done") {
            total += d["n"].as_u64().unwrap_or(0);
            for (k, n) in d["witnesses"].as_object().unwrap() {
                rep.witness_n(k, n.as_u64().unwrap_or(0));
            }
        }
    });
    rep.evaluations = total;
    rep.states = total;
    rep.transitions = total;
    for (i, c) in all.iter().enumerate() {
        if c.script.len() >= 2 && rep.nontrivial.len() < 20000 {
            let _ = rep.nontrivial.insert(format!("{i}"));
        }
    }
    rep.notes.push("every case is distinct by construction; distinct_nontrivial counts cases with a script of >= 2 answers (capped at 20000)".into());
}

pub fn replay(v: &Value, em: &mut Emitter) -> bool {
    let Some(c) = v.get("case").and_then(Case::from_json) else { return false };
    open_coroutine_core::verif::clock_enable(T0);
    open_coroutine_core::verif::set_wait_hook(Some(wait_hook));
    let socks = open_socks();
    em.emit(json!({"t":"case","case":c.to_json()}));
    let (viols, _) = run_case(&c, &socks);
    for v in viols {
        em.emit(json!({"t":"viol","property":v.property,"clause":v.clause,"class":v.class,"detail":v.detail}));
    }
    em.emit(json!({"t":"end"}));
    true
}
