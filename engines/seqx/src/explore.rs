//! Explicit-state breadth-first exploration. A state *is* the operation history that reaches it;
//! every history is executed on the real implementation in a fresh forked child.
use crate::report::Report;
use crate::runner::{run_many, run_one, ChildResult, Emitter, RunCfg};
use serde_json::{json, Value};
use std::collections::HashSet;
use std::time::{Duration, Instant};

pub trait Scenario: Sync {
    type Op: Clone + std::fmt::Debug + Send + Sync;
    fn name(&self) -> String;
    fn config(&self) -> Value;
    /// operations offered after `hist` (simplest first)
    fn enabled(&self, hist: &[Self::Op]) -> Vec<Self::Op>;
    /// runs in the child: replay `hist` on the real implementation, emit observations
    fn exec(&self, hist: &[Self::Op], em: &mut Emitter);
    fn op_to_json(&self, op: &Self::Op) -> Value;
    fn op_from_json(&self, v: &Value) -> Option<Self::Op>;
    /// runs in the parent: evaluate oracles (record violations in `rep`), return the canonical
    /// state key if this state should be expanded, `None` to prune (terminal / violated state)
    fn judge(&self, hist: &[Self::Op], res: &ChildResult, rep: &mut Report) -> Option<String>;
}

pub fn replay_value<S: Scenario>(s: &S, hist: &[S::Op]) -> Value {
    json!({
        "engine": "seqx",
        "scenario": s.name(),
        "config": s.config(),
        "history": hist.iter().map(|o| s.op_to_json(o)).collect::<Vec<_>>(),
    })
}

pub struct Budget {
    pub deadline: Instant,
    pub max_states: u64,
}

impl Budget {
    pub fn secs(s: u64) -> Self {
        Budget {
            deadline: Instant::now() + Duration::from_secs(s),
            max_states: u64::MAX,
        }
    }
}

/// BFS with canonical-state dedup. `dedup=false` gives plain enumeration of all histories
/// (used to cross-check that the key is not too coarse).
pub fn bfs<S: Scenario>(
    s: &S,
    max_depth: usize,
    dedup: bool,
    rep: &mut Report,
    cfg: &RunCfg,
    budget: &Budget,
) -> HashSet<String> {
    let mut seen: HashSet<String> = HashSet::new();
    let mut frontier: Vec<Vec<S::Op>> = vec![vec![]];
    let mut depth_done = 0usize;
    for depth in 0..=max_depth {
        if frontier.is_empty() {
            break;
        }
        // execute the whole level in parallel, in chunks so that a deadline can be honoured
        let mut next: Vec<Vec<S::Op>> = Vec::new();
        let mut aborted = false;
        for chunk in frontier.chunks(2048) {
            if Instant::now() > budget.deadline || rep.states >= budget.max_states {
                aborted = true;
                break;
            }
            let results = run_many(chunk.len(), cfg, |i, em| s.exec(&chunk[i], em));
            for (hist, res) in chunk.iter().zip(results.iter()) {
                rep.evaluations += 1;
                if depth > 0 {
                    rep.transitions += 1;
                }
                let before = rep.violations.len();
                let key = s.judge(hist, res, rep);
                if rep.violations.len() > before {
                    confirm(s, hist, res, rep, cfg);
                }
                rep.outcomes.insert(outcome_digest(res));
                if let Some(k) = key {
                    let fresh = seen.insert(k.clone());
                    if fresh {
                        rep.states += 1;
                        if depth >= 2 {
                            rep.nontrivial.insert(k);
                        }
                        if rep.samples.len() < 4 && depth == max_depth.min(3) {
                            rep.sample(json!({"history": hist.iter().map(|o| s.op_to_json(o)).collect::<Vec<_>>(),
                                "observations": res.records}));
                        }
                    }
                    if (fresh || !dedup) && depth < max_depth {
                        for op in s.enabled(hist) {
                            let mut h = hist.clone();
                            h.push(op);
                            next.push(h);
                        }
                    }
                }
            }
        }
        if aborted {
            rep.cap(&format!(
                "wall/state budget hit while exploring depth {depth}; depths < {depth} are complete"
            ));
            break;
        }
        depth_done = depth;
        frontier = next;
    }
    rep.bounds["depth_completed"] = json!(depth_done);
    rep.bounds["max_depth"] = json!(max_depth);
    seen
}

fn outcome_digest(res: &ChildResult) -> String {
    // the last record + exit is a cheap proxy for "distinct observed outcome"
    let mut s = res.exit.describe();
    if let Some(l) = res.records.last() {
        s.push_str(&l.to_string());
    }
    s
}

/// A violation is only reported after the recorded trace has been re-executed twice with
/// identical observations; otherwise it is a machinery error (uncontrolled nondeterminism).
pub fn confirm<S: Scenario>(s: &S, hist: &[S::Op], res: &ChildResult, rep: &mut Report, cfg: &RunCfg) {
    let fp = res.fingerprint();
    for round in 0..2 {
        let again = run_one(cfg, |em| s.exec(hist, em));
        if again.fingerprint() != fp {
            let v = rep.retract_last();
            rep.machinery_errors.push(format!(
                "replay {round} of violation {} diverged: first run\n{fp}\nreplay\n{}",
                v.signature,
                again.fingerprint()
            ));
            return;
        }
    }
}

/// Plain product enumeration of independent cases (input-quantified properties).
/// `exec(case)` runs in the child, `judge` in the parent. Cases are batched per child; when a
/// child dies, its unfinished cases are re-run one per child so the failure is attributed.
///
/// With `batch > 1` every case of a batch runs on its **own fresh OS thread** of the shared child
/// (fresh thread-locals, joined before the next case starts); process-global state is shared, so
/// only scenarios that touch none may batch. A violation is always confirmed by re-running the
/// case alone in a fresh process; a divergence is reported as a machinery error, never a verdict.
pub fn sweep<C: Sync + Clone, FE, FJ>(
    cases: &[C],
    batch: usize,
    rep: &mut Report,
    cfg: &RunCfg,
    budget: &Budget,
    exec: FE,
    mut judge: FJ,
) where
    FE: Fn(&C, &mut Emitter) + Sync,
    FJ: FnMut(&C, &ChildResult, &mut Report),
{
    let batch = batch.max(1);
    let chunks: Vec<&[C]> = cases.chunks(batch).collect();
    let mut done = 0usize;
    for group in chunks.chunks(cfg.parallel.max(1) * 8) {
        if Instant::now() > budget.deadline {
            rep.cap(&format!("wall budget hit after {done} of {} cases", cases.len()));
            return;
        }
        let results = run_many(group.len(), cfg, |i, em| {
            for (k, c) in group[i].iter().enumerate() {
                em.emit(json!({"t":"case_begin","k":k}));
                if batch > 1 {
                    let fd = em.raw_fd();
                    let ok = std::thread::scope(|sc| {
                        std::thread::Builder::new()
                            .stack_size(1 << 20)
                            .spawn_scoped(sc, || {
                                let mut e2 = Emitter::from_fd(fd);
                                exec(c, &mut e2);
                            })
                            .expect("spawn case thread")
                            .join()
                            .is_ok()
                    });
                    if !ok {
                        em.emit(json!({"t":"harness_panic","msg":"case thread panicked"}));
                    }
                } else {
                    exec(c, em);
                }
                em.emit(json!({"t":"case_end","k":k}));
            }
        });
        for (chunk, res) in group.iter().zip(results.into_iter()) {
            // split records per case
            let mut per: Vec<Vec<Value>> = vec![Vec::new(); chunk.len()];
            let mut ended = vec![false; chunk.len()];
            let mut cur: Option<usize> = None;
            for r in &res.records {
                match r.get("t").and_then(Value::as_str) {
                    Some("case_begin") => cur = r.get("k").and_then(Value::as_u64).map(|k| k as usize),
                    Some("case_end") => {
                        if let Some(k) = cur {
                            ended[k] = true;
                        }
                        cur = None;
                    }
                    _ => {
                        if let Some(k) = cur {
                            per[k].push(r.clone());
                        }
                    }
                }
            }
            for (k, c) in chunk.iter().enumerate() {
                let mut single = if ended[k] {
                    ChildResult {
                        exit: crate::runner::Exit::Code(0),
                        records: std::mem::take(&mut per[k]),
                        wall: res.wall,
                    }
                } else {
                    // the child died in or before this case: attribute by re-running it alone
                    run_one(cfg, |em| exec(c, em))
                };
                if single.exit == crate::runner::Exit::Hung {
                    // "no progress within the budget" can also be a starved machine: executions are
                    // deterministic, so a real hang hangs again with four times the patience
                    let patient = RunCfg { parallel: cfg.parallel, hang_after: cfg.hang_after * 4, max_wall: cfg.max_wall * 4, racy_confirm: 0 };
                    let again = run_one(&patient, |em| exec(c, em));
                    if again.exit != crate::runner::Exit::Hung {
                        rep.notes.push("a case that made no progress within the hang budget completed when re-run alone with four times the budget (machine load); the re-run is the observation".into());
                        rep.notes.dedup();
                        single = again;
                    }
                }
                rep.evaluations += 1;
                rep.outcomes.insert(outcome_digest(&single));
                let before = rep.violations.len();
                judge(c, &single, rep);
                if rep.violations.len() > before {
                    let fp = single.fingerprint();
                    for round in 0..2 {
                        let again = run_one(cfg, |em| exec(c, em));
                        if again.fingerprint() != fp {
                            if cfg.racy_confirm > 0 {
                                let shown = (0..cfg.racy_confirm).filter(|_| run_one(cfg, |em| exec(c, em)).fingerprint() == fp).count();
                                if shown >= 2 {
                                    rep.notes.push(format!("a violation did not show in every re-execution of its case (the kernel decides when completions arrive); kept because it showed again in at least 2 of {} further re-executions", cfg.racy_confirm));
                                    rep.notes.dedup();
                                    break;
                                }
                            }
                            let v = rep.retract_last();
                            rep.machinery_errors.push(format!(
                                "replay {round} of violation {} diverged:\n{fp}\nvs\n{}",
                                v.signature,
                                again.fingerprint()
                            ));
                            break;
                        }
                    }
                }
                done += 1;
            }
        }
    }
}
