//! ppx – pause-point schedule exploration of the real crate on real OS threads.
//! The crate's `verif::point(label)` hooks (pool waits / runs / cancels / cleans, scheduler records,
//! monitor set accesses) are the scheduling points: a controlled thread that reaches one parks until
//! the controller grants it the next segment, so exactly one controlled thread runs between points.
//! One execution = one schedule (the sequence of grants). The explorer enumerates ALL schedules of a
//! scenario depth-first (optionally up to a preemption bound), each in a freshly forked child; a
//! schedule prefix is replayed exactly (a grant that is not enabled is a hard error).
//! Blocking is made visible: controlled threads are "virtual drivers", i.e. a condition wait that
//! would block returns at once after advancing the virtual clock by its timeout - so "slept through
//! its whole timeout" is an observation (lost wake-up), not a hang. A granted thread that neither
//! reaches a point nor finishes within the stall budget is blocked on a lock held by a parked thread:
//! it is left in flight and another thread is scheduled.
use crate::report::Report;
use crate::runner::{run_one, ChildResult, Emitter, RunCfg};
use serde_json::{json, Value};
use std::cell::Cell;
use std::sync::atomic::{AtomicBool, AtomicU8, AtomicUsize, Ordering};
use std::sync::Mutex;
use std::time::{Duration, Instant};

pub const MAXT: usize = 6;
const RUNNING: u8 = 0;
const AT_POINT: u8 = 1;
const FINISHED: u8 = 2;

pub struct Ctl {
    registered: AtomicUsize,
    status: [AtomicU8; MAXT],
    label: [Mutex<&'static str>; MAXT],
    grant: [AtomicBool; MAXT],
    /// threads that registered themselves (the monitor): they never end and do not keep a run alive
    daemon: [AtomicBool; MAXT],
    /// labels at which a thread parks; everything else passes through (keeps schedules short)
    filter: Mutex<Vec<&'static str>>,
    /// threads that call `point` without having been spawned by the harness (the monitor thread)
    auto_register: AtomicBool,
    pub log: Mutex<Vec<(usize, &'static str)>>,
}

#[allow(clippy::declare_interior_mutable_const)]
const A8: AtomicU8 = AtomicU8::new(RUNNING);
#[allow(clippy::declare_interior_mutable_const)]
const AB: AtomicBool = AtomicBool::new(false);
#[allow(clippy::declare_interior_mutable_const)]
const ML: Mutex<&'static str> = Mutex::new("");

pub static CTL: Ctl = Ctl {
    registered: AtomicUsize::new(0),
    status: [A8; MAXT],
    label: [ML; MAXT],
    grant: [AB; MAXT],
    daemon: [AB; MAXT],
    filter: Mutex::new(Vec::new()),
    auto_register: AtomicBool::new(false),
    log: Mutex::new(Vec::new()),
};

thread_local! {
    static TID: Cell<Option<usize>> = const { Cell::new(None) };
    /// the harness' own thread passes through every point
    static EXEMPT: Cell<bool> = const { Cell::new(false) };
}

pub fn exempt_this_thread() {
    EXEMPT.with(|e| e.set(true));
}

pub fn registered() -> usize {
    CTL.registered.load(Ordering::SeqCst)
}

pub fn parked(tid: usize) -> bool {
    CTL.status[tid].load(Ordering::SeqCst) == AT_POINT
}

fn park(tid: usize, label: &'static str) {
    *CTL.label[tid].lock().unwrap() = label;
    CTL.status[tid].store(AT_POINT, Ordering::SeqCst);
    // spin with short sleeps: no condvar, so a signal handler that switches stacks away from here
    // leaves nothing half-updated behind
    while !CTL.grant[tid].swap(false, Ordering::SeqCst) {
        std::thread::sleep(Duration::from_micros(20));
    }
    CTL.log.lock().unwrap().push((tid, label));
}

fn hook(label: &'static str) {
    let tid = match TID.with(Cell::get) {
        Some(t) => t,
        None => {
            if !CTL.auto_register.load(Ordering::SeqCst) || EXEMPT.with(Cell::get) {
                return;
            }
            let t = CTL.registered.fetch_add(1, Ordering::SeqCst);
            if t >= MAXT {
                return;
            }
            CTL.daemon[t].store(true, Ordering::SeqCst);
            TID.with(|c| c.set(Some(t)));
            open_coroutine_core::verif::set_driver(true);
            t
        }
    };
    let parks = {
        let f = CTL.filter.lock().unwrap();
        f.is_empty() || f.iter().any(|x| *x == label)
    };
    if parks {
        park(tid, label);
        CTL.status[tid].store(RUNNING, Ordering::SeqCst);
    }
}

/// Start a controlled thread; it parks at "start" before running `body`.
pub fn spawn<F: FnOnce() + Send + 'static>(body: F) -> usize {
    let tid = CTL.registered.fetch_add(1, Ordering::SeqCst);
    assert!(tid < MAXT);
    let _ = std::thread::Builder::new()
        .stack_size(1 << 20)
        .spawn(move || {
            TID.with(|c| c.set(Some(tid)));
            open_coroutine_core::verif::set_driver(true);
            park(tid, "start");
            CTL.status[tid].store(RUNNING, Ordering::SeqCst);
            body();
            CTL.log.lock().unwrap().push((tid, "end"));
            CTL.status[tid].store(FINISHED, Ordering::SeqCst);
        })
        .expect("spawn controlled thread");
    tid
}

pub fn init(filter: &[&'static str], auto_register: bool) {
    *CTL.filter.lock().unwrap() = filter.to_vec();
    CTL.auto_register.store(auto_register, Ordering::SeqCst);
    open_coroutine_core::verif::set_point_hook(Some(hook));
}

#[derive(Debug, Clone)]
pub struct Decision {
    pub enabled: Vec<usize>,
    pub labels: Vec<String>,
    pub chosen: usize,
    /// the previously running thread was still enabled and another one was chosen
    pub preemption: bool,
}

pub struct Trace {
    pub decisions: Vec<Decision>,
    pub deadlock: bool,
    pub stalled: Vec<usize>,
    pub prefix_error: Option<String>,
}

/// Drive all controlled threads to completion following `prefix` (indices into the enabled set at
/// each decision with more than one enabled thread), then the default policy: keep running the
/// thread that ran last if it is enabled, else the lowest id.
/// `horizon`: maximal number of grants (a thread that loops forever, like the monitor, ends the run).
pub fn drive(prefix: &[usize], horizon: usize, stall: Duration) -> Trace {
    let mut decisions = Vec::new();
    let mut last: Option<usize> = None;
    let mut in_flight: Vec<usize> = Vec::new();
    let mut grants = 0usize;
    let mut prefix_error = None;
    let mut pi = 0usize;
    // all spawned threads first reach "start"
    let t0 = Instant::now();
    loop {
        let n = CTL.registered.load(Ordering::SeqCst).min(MAXT);
        if (0..n).all(|t| CTL.status[t].load(Ordering::SeqCst) != RUNNING) || t0.elapsed() > Duration::from_secs(5) {
            break;
        }
        std::thread::sleep(Duration::from_micros(50));
    }
    loop {
        let n = CTL.registered.load(Ordering::SeqCst).min(MAXT);
        // threads in flight may have arrived meanwhile
        in_flight.retain(|t| CTL.status[*t].load(Ordering::SeqCst) == RUNNING);
        let enabled: Vec<usize> = (0..n).filter(|t| CTL.status[*t].load(Ordering::SeqCst) == AT_POINT).collect();
        let workers_done = (0..n).all(|t| CTL.daemon[t].load(Ordering::SeqCst) || CTL.status[t].load(Ordering::SeqCst) == FINISHED);
        if workers_done && n > 0 {
            return Trace { decisions, deadlock: false, stalled: vec![], prefix_error };
        }
        if enabled.is_empty() {
            if in_flight.is_empty() {
                return Trace { decisions, deadlock: false, stalled: vec![], prefix_error };
            }
            // somebody is running without having been granted (released from a lock): wait for it
            let w = Instant::now();
            while in_flight.iter().all(|t| CTL.status[*t].load(Ordering::SeqCst) == RUNNING) {
                if w.elapsed() > Duration::from_millis(1500) {
                    return Trace { decisions, deadlock: true, stalled: in_flight, prefix_error };
                }
                std::thread::sleep(Duration::from_micros(50));
            }
            continue;
        }
        if grants >= horizon {
            return Trace { decisions, deadlock: false, stalled: in_flight, prefix_error };
        }
        // default: go on with the thread that ran last; never pick a daemon (the monitor's endless scan
        // loop) by default while a worker is enabled
        let is_daemon = |t: usize| CTL.daemon[t].load(Ordering::SeqCst);
        let default_idx = last
            .filter(|l| !is_daemon(*l))
            .and_then(|l| enabled.iter().position(|t| *t == l))
            .or_else(|| enabled.iter().position(|t| !is_daemon(*t)))
            .unwrap_or(0);
        let idx = if enabled.len() > 1 {
            let i = if pi < prefix.len() {
                let i = prefix[pi];
                if i >= enabled.len() {
                    prefix_error = Some(format!("decision {pi}: prefix asks for alternative {i} of {} enabled", enabled.len()));
                    return Trace { decisions, deadlock: false, stalled: vec![], prefix_error };
                }
                i
            } else {
                default_idx
            };
            pi += 1;
            i
        } else {
            0
        };
        let chosen = enabled[idx];
        let labels: Vec<String> = enabled.iter().map(|t| (*CTL.label[*t].lock().unwrap()).to_string()).collect();
        if enabled.len() > 1 {
            let preemption = last.is_some_and(|l| enabled.contains(&l) && l != chosen);
            decisions.push(Decision { enabled: enabled.clone(), labels, chosen, preemption });
        }
        // grant and wait for the next arrival / end / stall
        CTL.status[chosen].store(RUNNING, Ordering::SeqCst);
        CTL.grant[chosen].store(true, Ordering::SeqCst);
        grants += 1;
        last = Some(chosen);
        let w = Instant::now();
        while CTL.status[chosen].load(Ordering::SeqCst) == RUNNING {
            if w.elapsed() > stall {
                in_flight.push(chosen);
                break;
            }
            std::thread::sleep(Duration::from_micros(20));
        }
    }
}

pub fn log_json() -> Value {
    json!(CTL.log.lock().unwrap().iter().map(|(t, l)| format!("T{t}:{l}")).collect::<Vec<_>>())
}

pub fn trace_json(t: &Trace) -> Value {
    json!({
        "decisions": t.decisions.iter().map(|d| json!({"enabled": d.enabled, "at": d.labels, "chosen": d.chosen, "preemption": d.preemption})).collect::<Vec<_>>(),
        "deadlock": t.deadlock, "stalled": t.stalled, "prefix_error": t.prefix_error,
        "daemons": (0..MAXT).filter(|t| CTL.daemon[*t].load(Ordering::SeqCst)).collect::<Vec<_>>(),
    })
}

// ------------------------------------------------------------------------------------------
// explorer (parent side)

pub struct Explored {
    pub schedules: u64,
    pub max_decisions: usize,
    pub capped: bool,
}

/// Depth-first enumeration of all schedules of `exec` (a child body that takes the prefix and emits
/// one `{"t":"trace", ...}` record plus whatever the scenario's judge needs).
pub fn explore<FE, FJ>(exec: FE, mut judge: FJ, rep: &mut Report, cfg: &RunCfg, max_preemptions: Option<usize>, max_schedules: u64, deadline: Instant) -> Explored
where
    FE: Fn(&[usize], &mut Emitter) + Sync,
    FJ: FnMut(&[usize], &ChildResult, &mut Report),
{
    let mut stack: Vec<Vec<usize>> = vec![vec![]];
    let mut out = Explored { schedules: 0, max_decisions: 0, capped: false };
    while let Some(prefix) = stack.pop() {
        if out.schedules >= max_schedules || Instant::now() > deadline {
            out.capped = true;
            rep.cap(&format!("schedule budget hit after {} schedules ({} prefixes pending)", out.schedules, stack.len() + 1));
            break;
        }
        let mut res = run_one(cfg, |em| exec(&prefix, em));
        // executions are deterministic: a run that did not follow its prefix was disturbed from outside
        // (a starved machine makes a granted thread look stalled); such a run is repeated, twice at most
        for _ in 0..2 {
            let followed = res.last("trace").is_some_and(|tr| {
                tr["prefix_error"].is_null() && {
                    let ds = tr["decisions"].as_array().cloned().unwrap_or_default();
                    prefix.iter().enumerate().all(|(i, want)| ds.get(i).is_some_and(|d| d["enabled"].as_array().and_then(|e| e.get(*want)).and_then(Value::as_u64) == d["chosen"].as_u64()))
                }
            });
            if followed || res.last("trace").is_none() {
                break;
            }
            rep.notes.push("a run that did not follow its schedule prefix (machine load) was repeated".into());
            rep.notes.dedup();
            res = run_one(cfg, |em| exec(&prefix, em));
        }
        out.schedules += 1;
        rep.evaluations += 1;
        let Some(tr) = res.last("trace") else {
            // the child died before the trace was complete: that is an observation for the judge
            judge(&prefix, &res, rep);
            continue;
        };
        if let Some(e) = tr["prefix_error"].as_str() {
            rep.machinery_errors.push(format!("ppx: schedule prefix {prefix:?} could not be replayed: {e}"));
            continue;
        }
        let decisions = tr["decisions"].as_array().cloned().unwrap_or_default();
        out.max_decisions = out.max_decisions.max(decisions.len());
        // the prefix must have been followed
        for (i, want) in prefix.iter().enumerate() {
            let d = &decisions.get(i);
            let ok = d.is_some_and(|d| d["enabled"].as_array().and_then(|e| e.get(*want)).and_then(Value::as_u64) == d["chosen"].as_u64());
            if !ok {
                rep.machinery_errors.push(format!("ppx: replaying prefix {prefix:?} diverged at decision {i}: {}", decisions.get(i).cloned().unwrap_or(Value::Null)));
            }
        }
        let before = rep.violations.len();
        judge(&prefix, &res, rep);
        if rep.violations.len() > before {
            // same schedule, same observations?
            let full: Vec<usize> = decisions.iter().map(|d| d["enabled"].as_array().unwrap().iter().position(|t| t.as_u64() == d["chosen"].as_u64()).unwrap_or(0)).collect();
            let again = run_one(cfg, |em| exec(&full, em));
            if again.fingerprint() != res.fingerprint() {
                let v = rep.retract_last();
                rep.machinery_errors.push(format!("ppx: re-running the schedule of violation {} gave different observations:\n{}\nvs\n{}", v.signature, res.fingerprint(), again.fingerprint()));
            }
        }
        // alternatives at every decision after the prefix; the bound counts deviations from the default
        // policy: preemptions, and every grant to a daemon thread (whose loop never ends)
        let daemons: Vec<u64> = tr["daemons"].as_array().map(|a| a.iter().filter_map(Value::as_u64).collect()).unwrap_or_default();
        let mut preempts = 0usize;
        for (i, d) in decisions.iter().enumerate() {
            let en = d["enabled"].as_array().unwrap();
            let chosen_idx = en.iter().position(|t| t.as_u64() == d["chosen"].as_u64()).unwrap_or(0);
            if i >= prefix.len() {
                for alt in 0..en.len() {
                    if alt == chosen_idx {
                        continue;
                    }
                    // would choosing `alt` here be a preemption? (the thread that ran last is still enabled)
                    let last_running = if i == 0 { None } else { decisions[i - 1]["chosen"].as_u64() };
                    let is_preempt = last_running.is_some_and(|l| en.iter().any(|t| t.as_u64() == Some(l)) && en[alt].as_u64() != Some(l)) || en[alt].as_u64().is_some_and(|t| daemons.contains(&t));
                    if max_preemptions.is_some_and(|m| preempts + usize::from(is_preempt) > m) {
                        continue;
                    }
                    let mut p: Vec<usize> = decisions[..i].iter().map(|d| d["enabled"].as_array().unwrap().iter().position(|t| t.as_u64() == d["chosen"].as_u64()).unwrap_or(0)).collect();
                    p.push(alt);
                    stack.push(p);
                }
            }
            if d["preemption"] == true || d["chosen"].as_u64().is_some_and(|t| daemons.contains(&t)) {
                preempts += 1;
            }
        }
    }
    out
}

// ------------------------------------------------------------------------------------------
// scenarios

const T0: u64 = 1_700_000_000_000_000_000;

mod pool_sc {
    use super::*;
    use open_coroutine_core::co_pool::CoroutinePool;
    use open_coroutine_core::common::now;

    struct Shared(*mut CoroutinePool<'static>);
    unsafe impl Send for Shared {}
    unsafe impl Sync for Shared {}
    impl Clone for Shared {
        fn clone(&self) -> Self {
            Shared(self.0)
        }
    }
    impl Shared {
        fn ptr(&self) -> *mut CoroutinePool<'static> {
            self.0
        }
    }

    /// waiter || runner (C02) and waiter || stop (C12).
    /// `stop`: the scheduling thread stops the pool instead of merely running the task.
    /// `unknown`: the waiter waits for a task id nobody submitted (only `stop` can settle it).
    /// `rewait`: the waiter first waits with a short timeout and, if that expires, waits again.
    /// `twostep`: the pool also holds a task that parks for 400 ms; the scheduling thread's first
    /// stop(50 ms) times out and it stops a second time.
    /// `twopools`: the task is accepted by pool A (the waiter waits there) and run by pool B, which the
    /// scheduling thread drives (the pools share the queue: B steals the task).
    pub fn exec(prefix: &[usize], em: &mut Emitter, stop: bool, unknown: bool, rewait: bool, twostep: bool, twopools: bool) {
        std::panic::set_hook(Box::new(|_| {}));
        open_coroutine_core::verif::clock_enable(T0);
        init(&["wait:checked", "wait:registered", "wait:block", "wait:woken", "run:popped", "run:inserted", "clean:waiter"], false);
        let pool = Box::leak(Box::new(CoroutinePool::new("ppx-pool".to_string(), 64 * 1024, 0, 2, 0)));
        let tid = pool.submit_task(Some("ppx-task".to_string()), |_| Some(7), None, None).expect("submit");
        if twostep {
            let _ = pool.submit_task(Some("ppx-parked".to_string()), |_| {
                open_coroutine_core::scheduler::SchedulableSuspender::current().expect("suspender").delay(Duration::from_millis(400));
                Some(8)
            }, None, None).expect("submit");
        }
        let wait_for = if unknown { tid ^ 0x5555 } else { tid };
        let other: &'static mut CoroutinePool<'static> = Box::leak(Box::new(CoroutinePool::new("ppx-pool-b".to_string(), 64 * 1024, 0, 2, 0)));
        let sh_b = Shared(std::ptr::from_mut(other));
        let sh = Shared(std::ptr::from_mut(pool));
        let out: &'static Mutex<Vec<(String, String)>> = Box::leak(Box::new(Mutex::new(Vec::new())));
        let s1 = sh.clone();
        let _ = spawn(move || {
            let p = unsafe { &*s1.ptr() };
            let mut t = now();
            let mut r = if rewait { p.wait_task_result(wait_for, Duration::from_secs(1)) } else { p.wait_task_result(wait_for, Duration::from_secs(10)) };
            if rewait && r.is_err() {
                t = now();
                r = p.wait_task_result(wait_for, Duration::from_secs(10));
            }
            let slept = now() - t;
            let txt = match r {
                Ok(Ok(v)) => format!("Ok({v:?})"),
                Ok(Err(e)) => format!("Err({e})"),
                Err(e) => format!("io:{:?}", e.kind()),
            };
            out.lock().unwrap().push(("waiter".into(), format!("{txt} after {}s of virtual sleep", slept / 1_000_000_000)));
        });
        let s2 = if twopools { sh_b.clone() } else { sh.clone() };
        let _ = spawn(move || {
            let p = unsafe { &mut *s2.ptr() };
            let txt = if stop {
                let first = if twostep { Some(p.stop(Duration::from_millis(50)).is_ok()) } else { None };
                match p.stop(Duration::from_secs(1)) {
                    Ok(()) => format!("stopped{}", first.map_or(String::new(), |f| format!(" (first stop ok: {f})"))),
                    Err(e) => format!("stop failed: {:?}", e.kind()),
                }
            } else {
                match p.try_timed_schedule_task(Duration::from_millis(50)) {
                    Ok(_) => "scheduled".to_string(),
                    Err(e) => format!("schedule failed: {:?}", e.kind()),
                }
            };
            out.lock().unwrap().push(("scheduler".into(), txt));
        });
        let tr = drive(prefix, 200, Duration::from_millis(2500));
        let mut o = out.lock().unwrap().clone();
        o.sort();
        em.emit(json!({"t":"out","results": o.iter().map(|(a, b)| json!([a, b])).collect::<Vec<_>>(), "order": log_json()}));
        let mut v = trace_json(&tr);
        v["t"] = json!("trace");
        em.emit(v);
    }

    pub fn judge(scen: &str, prop: &str, stop: bool, unknown: bool, prefix: &[usize], res: &ChildResult, rep: &mut Report) {
        let replay = |sched: Value| json!({"engine":"seqx","scenario":scen,"schedule": sched});
        let sched = res.last("trace").map(|t| t["decisions"].clone()).unwrap_or(json!(prefix));
        if !res.exit.ok() {
            rep.violation_for(prop, &format!("{scen}/process-survives/{}", res.exit.describe()), format!("schedule prefix {prefix:?}: the process {}", res.exit.describe()), replay(json!(prefix)));
            return;
        }
        let (Some(out), Some(tr)) = (res.last("out"), res.last("trace")) else {
            rep.machinery_errors.push(format!("{scen}: incomplete records for prefix {prefix:?}"));
            return;
        };
        let order: Vec<String> = out["order"].as_array().unwrap().iter().map(|x| x.as_str().unwrap().to_string()).collect();
        let _ = rep.nontrivial.insert(order.join(","));
        if tr["deadlock"] == true {
            rep.violation_for(prop, &format!("{scen}/no-deadlock/-"), format!("schedule {}: threads {} never finished nor reached a point; order {order:?}", sched, tr["stalled"]), replay(json!(prefix)));
            return;
        }
        let results = out["results"].as_array().unwrap();
        let waiter = results.iter().find(|r| r[0] == "waiter").map(|r| r[1].as_str().unwrap().to_string());
        let Some(waiter) = waiter else {
            rep.violation_for(prop, &format!("{scen}/waiter-returns/-"), format!("schedule {sched}: the waiter never returned; order {order:?}"), replay(json!(prefix)));
            return;
        };
        // Under the virtual clock a wait that would block "sleeps" its whole timeout at once. That is
        // what a real waiter sees when the other thread is slow - unless everything that could ever wake
        // it had ALREADY happened when the sleep began: then it is a lost wake-up.
        let pos = |l: &str| if l.starts_with("T0:wait") { order.iter().rposition(|x| x == l) } else { order.iter().position(|x| x == l) };
        // the (virtual) sleep happens right after the waiter is released from "wait:block"
        let sleep_begins = pos("T0:wait:block");
        let settled_before_sleep = match (sleep_begins, if stop { pos("T1:end") } else { pos("T1:run:inserted") }) {
            (Some(s), Some(e)) => e < s,
            _ => false,
        };
        // (the log holds the order in which threads were RELEASED from their points: the waiter's check
        // lies between "T0:start" and "T0:wait:checked", the completion between "T1:start" and "T1:end")
        let in_window = matches!((pos("T0:start"), pos("T1:start"), pos("T1:run:inserted").or(pos("T1:end")), pos("T0:wait:checked")), (Some(a), Some(b), Some(i), Some(c)) if a < b && i < c);
        let class = if in_window { "completion-falls-between-the-waiters-check-and-its-registration" } else { "other-order" };
        let want = if unknown { "Err(The coroutine pool has stopped)" } else { "Ok(Some(7))" };
        let slept = !waiter.ends_with("after 0s of virtual sleep");
        let clause = if unknown { "stop-settles-every-waiter" } else { "wait-returns-once-the-task-has-finished" };
        if slept && settled_before_sleep {
            rep.violation_for(prop, &format!("{scen}/{clause}/{class}"), format!("schedule {sched}: the waiter got \"{waiter}\" although everything that could wake it had happened before it began to wait (lost wake-up); order of points {order:?}"), replay(json!(prefix)));
            return;
        }
        if !slept && !waiter.starts_with(want) {
            rep.violation_for(prop, &format!("{scen}/{clause}:wrong-value/{class}"), format!("schedule {sched}: the waiter got \"{waiter}\", expected {want}; order of points {order:?}"), replay(json!(prefix)));
            return;
        }
        if slept {
            rep.witness("schedules_where_the_waiter_legitimately_timed_out");
        }
        rep.witness("schedules_judged");
        if class != "other-order" {
            rep.witness("schedules_with_completion_inside_the_check_register_window");
        }
    }
}


mod mig_sc {
    use super::*;
    use open_coroutine_core::co_pool::CoroutinePool;
    use std::sync::atomic::AtomicU32;

    struct Shared(*mut CoroutinePool<'static>);
    unsafe impl Send for Shared {}
    impl Shared {
        fn ptr(&self) -> *mut CoroutinePool<'static> {
            self.0
        }
    }
    static RUNS: AtomicU32 = AtomicU32::new(0);
    /// (worker coroutine, controlled thread) at the start and at the end of the task body
    static WHERE: Mutex<Vec<(String, usize)>> = Mutex::new(Vec::new());

    /// (controlled thread, sees a current suspender, sees a current coroutine) after its scheduling calls
    static OUTSIDE: Mutex<Vec<(usize, bool, bool)>> = Mutex::new(Vec::new());

    fn outside() -> Vec<(usize, bool, bool)> {
        let mut o = OUTSIDE.lock().unwrap().clone();
        o.sort_unstable();
        o
    }

    fn here() {
        // (the name ends in a random id: keep the pool's part)
        let co = open_coroutine_core::scheduler::SchedulableCoroutine::current().map_or(String::new(), |c| c.name().split('@').next().unwrap_or("").to_string());
        WHERE.lock().unwrap().push((co, TID.with(Cell::get).unwrap_or(99)));
    }

    /// Two pools on two scheduling threads share the ready queue of coroutines (as every event loop
    /// does): pool A runs a task that yields `yields` times, pool B has nothing to do - its scheduler
    /// may take (steal) A's worker coroutine whenever that stands in A's ready queue. Afterwards both
    /// pools are driven to quiescence and stopped on the harness thread.
    pub fn exec(prefix: &[usize], em: &mut Emitter, yields: usize) {
        std::panic::set_hook(Box::new(|_| {}));
        open_coroutine_core::verif::clock_enable(T0);
        init(&["sched:pop"], false);
        let a: &'static mut CoroutinePool<'static> = Box::leak(Box::new(CoroutinePool::new("mig-a".to_string(), 64 * 1024, 0, 2, 0)));
        let b: &'static mut CoroutinePool<'static> = Box::leak(Box::new(CoroutinePool::new("mig-b".to_string(), 64 * 1024, 0, 2, 0)));
        let _ = a.submit_task(Some("mig-task".to_string()), move |_| {
            here();
            for _ in 0..yields {
                open_coroutine_core::scheduler::SchedulableSuspender::current().expect("suspender").suspend();
            }
            let _ = RUNS.fetch_add(1, Ordering::SeqCst);
            here();
            Some(7)
        }, None, None).expect("submit");
        let (sa, sb) = (Shared(std::ptr::from_mut(a)), Shared(std::ptr::from_mut(b)));
        let (pa, pb) = (sa.ptr() as usize, sb.ptr() as usize);
        for s in [sa, sb] {
            let _ = spawn(move || {
                let p = unsafe { &mut *s.ptr() };
                for _ in 0..2 {
                    let _ = p.try_schedule_task();
                }
                // this thread is outside every coroutine now
                let sus = open_coroutine_core::scheduler::SchedulableSuspender::current().is_some();
                let co = open_coroutine_core::scheduler::SchedulableCoroutine::current().is_some();
                OUTSIDE.lock().unwrap().push((TID.with(Cell::get).unwrap_or(99), sus, co));
            });
        }
        let tr = drive(prefix, 200, Duration::from_millis(2500));
        let mut v = trace_json(&tr);
        v["t"] = json!("trace");
        let stuck = tr.deadlock || !tr.stalled.is_empty();
        let (a, b) = unsafe { (&mut *(pa as *mut CoroutinePool<'static>), &mut *(pb as *mut CoroutinePool<'static>)) };
        if stuck {
            // a scheduling thread is still inside try_schedule_task: nothing more can be asked of the pools
            em.emit(json!({"t":"out","stuck": true, "runs": RUNS.load(Ordering::SeqCst), "running": [a.get_running_size(), b.get_running_size()], "where": *WHERE.lock().unwrap(), "outside": outside(), "order": log_json()}));
            em.emit(v);
            return;
        }
        // everything the threads left behind is finished here, one pool after the other
        for _ in 0..4 {
            let _ = a.try_timed_schedule_task(Duration::from_millis(5));
            let _ = b.try_timed_schedule_task(Duration::from_millis(5));
            let _ = open_coroutine_core::verif::clock_advance(Duration::from_millis(2));
        }
        let running = [a.get_running_size(), b.get_running_size()];
        let t = open_coroutine_core::common::now();
        let stops = [a.stop(Duration::from_millis(200)).is_ok(), b.stop(Duration::from_millis(200)).is_ok()];
        let stop_ms = (open_coroutine_core::common::now() - t) / 1_000_000;
        em.emit(json!({"t":"out","stuck": false, "runs": RUNS.load(Ordering::SeqCst), "running": running, "stops_ok": stops, "stops_took_virtual_ms": stop_ms, "where": *WHERE.lock().unwrap(), "outside": outside(), "order": log_json()}));
        em.emit(v);
    }

    pub fn judge(yields: usize, prefix: &[usize], res: &ChildResult, rep: &mut Report) {
        let scen = "ppx.migrate";
        let replay = json!({"engine":"seqx","scenario":scen,"schedule": prefix, "yields": yields});
        if !res.exit.ok() {
            rep.violation(&format!("{scen}/process-survives/{}", res.exit.describe()), format!("schedule prefix {prefix:?}: the process {}", res.exit.describe()), replay);
            return;
        }
        let (Some(out), Some(tr)) = (res.last("out"), res.last("trace")) else {
            rep.machinery_errors.push(format!("{scen}: incomplete records for prefix {prefix:?}"));
            return;
        };
        let order: Vec<String> = out["order"].as_array().unwrap().iter().map(|x| x.as_str().unwrap().to_string()).collect();
        let _ = rep.nontrivial.insert(order.join(","));
        let sched = tr["decisions"].as_array().map(|d| d.iter().map(|d| format!("{}", d["chosen"])).collect::<Vec<_>>().join("")).unwrap_or_default();
        if out["stuck"] == true {
            rep.violation(&format!("{scen}/scheduling-returns-when-all-work-is-done/a-worker-ran-on-the-other-pools-thread"), format!("schedule (thread chosen at each decision) {sched}: thread(s) {} never came back from try_schedule_task although the only task had run {} time(s) (running sizes {}): a worker coroutine taken over by the other pool's scheduler is counted by the pool that created it, the pool it now serves reports 0 workers, and a worker only ends when its pool counts more workers than its minimum", tr["stalled"], out["runs"], out["running"]), replay);
            return;
        }
        rep.witness("schedules_judged");
        // did the task's worker change threads (= pools) while the task was suspended?
        if let Some(w) = out["where"].as_array() {
            if w.len() == 2 && w[0][0] == w[1][0] && w[0][1] != w[1][1] {
                rep.witness("schedules_in_which_the_other_pools_scheduler_took_the_worker_over");
            }
            if w.first().is_some_and(|x| x[0].as_str().is_some_and(|n| n.starts_with("mig-b"))) {
                rep.witness("schedules_in_which_the_other_pool_took_the_task");
            }
        }
        if let Some(bad) = out["outside"].as_array().and_then(|a| a.iter().find(|x| x[1] == true || x[2] == true)) {
            rep.violation_for("C01", &format!("{scen}/a-thread-outside-every-coroutine-sees-no-current-coroutine/after-a-worker-changed-threads"), format!("schedule {sched}: after its scheduling calls had returned, thread T{} still saw a current suspender ({}) / coroutine ({}): the thread-local 'current' records were updated on the wrong thread when a suspended coroutine was resumed by another thread; the next wait on that thread suspends a coroutine that is not running there (an event loop's own thread never comes back from wait_event)", bad[0], bad[1], bad[2]), replay);
            return;
        }
        if out["runs"] != 1 {
            rep.violation_for("C01", &format!("{scen}/task-runs-exactly-once/-"), format!("schedule {sched}: the task ran {} times", out["runs"]), replay);
            return;
        }
        if out["running"] != json!([0, 0]) {
            rep.violation(&format!("{scen}/running-size-returns-to-zero/after-a-worker-changed-pools"), format!("schedule {sched}: all work is done and both pools were driven to quiescence, yet they report {} running workers", out["running"]), replay);
            return;
        }
        if out["stops_ok"] != json!([true, true]) || out["stops_took_virtual_ms"].as_u64().unwrap_or(0) >= 200 {
            rep.violation(&format!("{scen}/stop-is-prompt-when-all-work-is-done/-"), format!("schedule {sched}: stop() of the two idle pools gave {} after {} ms", out["stops_ok"], out["stops_took_virtual_ms"]), replay);
            return;
        }
        // did the other pool's thread take the worker over in this schedule?
        rep.witness("schedules_ending_quiescent_with_zero_workers");
    }
}

mod smig_sc {
    use super::*;
    use open_coroutine_core::scheduler::Scheduler;

    struct Shared(*mut Scheduler<'static>);
    unsafe impl Send for Shared {}
    impl Shared {
        fn ptr(&self) -> *mut Scheduler<'static> {
            self.0
        }
    }
    /// (thread, "id=result") of every result a scheduling call reported
    static REPORTED: Mutex<Vec<(usize, String)>> = Mutex::new(Vec::new());
    /// bodies that ran to their end
    static ENDED: Mutex<Vec<usize>> = Mutex::new(Vec::new());

    /// C10 on two schedulers whose ready queues steal from each other: scheduler A holds coroutine X
    /// (yields `yields` times, then returns 1) and Y (returns 2 at once); scheduler B holds nothing.
    /// Each scheduler is driven by its own thread; B may take X over while it stands in A's ready queue.
    pub fn exec(prefix: &[usize], em: &mut Emitter, yields: usize) {
        std::panic::set_hook(Box::new(|_| {}));
        open_coroutine_core::verif::clock_enable(T0);
        init(&["sched:pop"], false);
        let a: &'static mut Scheduler<'static> = Box::leak(Box::new(Scheduler::new("smig-a".to_string(), 64 * 1024)));
        let b: &'static mut Scheduler<'static> = Box::leak(Box::new(Scheduler::new("smig-b".to_string(), 64 * 1024)));
        let x = a.submit_co(move |s, ()| {
            for _ in 0..yields {
                s.suspend();
            }
            ENDED.lock().unwrap().push(1);
            Some(1)
        }, None, None).expect("submit x");
        let y = a.submit_co(|_, ()| {
            ENDED.lock().unwrap().push(2);
            Some(2)
        }, None, None).expect("submit y");
        for s in [Shared(std::ptr::from_mut(a)), Shared(std::ptr::from_mut(b))] {
            let _ = spawn(move || {
                let sc = unsafe { &mut *s.ptr() };
                let me = TID.with(Cell::get).unwrap_or(99);
                for _ in 0..2 {
                    if let Ok(rs) = sc.try_schedule() {
                        for (id, r) in rs {
                            let who = if id == x { "X" } else if id == y { "Y" } else { "?" };
                            REPORTED.lock().unwrap().push((me, format!("{who}={r:?}")));
                        }
                    }
                }
            });
        }
        let tr = drive(prefix, 200, Duration::from_millis(2500));
        let mut v = trace_json(&tr);
        v["t"] = json!("trace");
        let mut rep = REPORTED.lock().unwrap().clone();
        rep.sort();
        let mut ended = ENDED.lock().unwrap().clone();
        ended.sort_unstable();
        em.emit(json!({"t":"out","reported": rep, "ended": ended, "order": log_json()}));
        em.emit(v);
    }

    pub fn judge(yields: usize, prefix: &[usize], res: &ChildResult, rep: &mut Report) {
        let scen = "ppx.schedmig";
        let replay = json!({"engine":"seqx","scenario":scen,"schedule": prefix, "yields": yields});
        if !res.exit.ok() {
            rep.violation(&format!("{scen}/process-survives/{}", res.exit.describe()), format!("schedule prefix {prefix:?}: the process {}", res.exit.describe()), replay);
            return;
        }
        let (Some(out), Some(tr)) = (res.last("out"), res.last("trace")) else {
            rep.machinery_errors.push(format!("{scen}: incomplete records for prefix {prefix:?}"));
            return;
        };
        let order: Vec<String> = out["order"].as_array().unwrap().iter().map(|x| x.as_str().unwrap().to_string()).collect();
        let _ = rep.nontrivial.insert(order.join(","));
        let sched = tr["decisions"].as_array().map(|d| d.iter().map(|d| format!("{}", d["chosen"])).collect::<Vec<_>>().join("")).unwrap_or_default();
        if tr["deadlock"] == true || tr["stalled"].as_array().is_some_and(|s| !s.is_empty()) {
            rep.violation(&format!("{scen}/scheduling-returns/-"), format!("schedule {sched}: thread(s) {} never came back from try_schedule; order {order:?}", tr["stalled"]), replay);
            return;
        }
        rep.witness("schedules_judged");
        let reported: Vec<(u64, String)> = out["reported"].as_array().unwrap().iter().map(|r| (r[0].as_u64().unwrap(), r[1].as_str().unwrap().to_string())).collect();
        if out["ended"] != json!([1, 2]) {
            rep.violation(&format!("{scen}/every-coroutine-completes-exactly-once/-"), format!("schedule {sched}: bodies that ran to their end: {} (expected X and Y once each)", out["ended"]), replay);
            return;
        }
        let mut vals: Vec<&str> = reported.iter().map(|r| r.1.as_str()).collect();
        vals.sort_unstable();
        if vals != ["X=Ok(Some(1))", "Y=Ok(Some(2))"] {
            rep.violation(&format!("{scen}/each-result-is-reported-once-under-its-own-id/-"), format!("schedule {sched}: the scheduling calls reported {reported:?}, expected X=Ok(Some(1)) and Y=Ok(Some(2)) once each"), replay);
            return;
        }
        if reported.iter().any(|r| r.0 == 1) {
            rep.witness("schedules_in_which_the_idle_scheduler_finished_a_stolen_coroutine");
        }
    }
}

#[cfg(feature = "preemptive")]
mod mon_sc {
    use super::*;
    use open_coroutine_core::common::constants::CoroutineState;
    use open_coroutine_core::coroutine::suspender::Suspender;
    use open_coroutine_core::scheduler::{SchedulableCoroutine, Scheduler};

    /// two scheduling threads, each running one coroutine that yields once, under the real monitor:
    /// every state change to/from Running inserts/removes a node of the monitor's set, the monitor
    /// thread scans it. Accesses are bracketed by enter/exit points; two threads inside their
    /// brackets at once with a mutation among them is a data race on the plain HashSet.
    pub fn exec(prefix: &[usize], em: &mut Emitter, suspends: usize) {
        std::panic::set_hook(Box::new(|_| {}));
        open_coroutine_core::verif::clock_enable(T0);
        exempt_this_thread();
        init(&["mon:insert:enter", "mon:remove:enter", "mon:scan:enter"], true);
        // the monitor thread is started by the library with the first coroutine that runs: let that
        // happen here, on the exempt harness thread, and wait until the monitor (T0) is parked at its
        // first scan, so that every run starts from the same state
        {
            let mut warm = Scheduler::new("ppx-mon-warm".to_string(), 64 * 1024);
            let _ = warm.submit_co(|_, ()| Some(0), None, None);
            let _ = warm.try_schedule();
            std::mem::forget(warm);
        }
        let w = Instant::now();
        while !(registered() == 1 && parked(0)) && w.elapsed() < Duration::from_secs(5) {
            std::thread::sleep(Duration::from_micros(100));
        }
        let out: &'static Mutex<Vec<String>> = Box::leak(Box::new(Mutex::new(Vec::new())));
        for k in 0..2usize {
            let _ = spawn(move || {
                let mut sched = Scheduler::new(format!("ppx-mon-{k}"), 64 * 1024);
                let co: SchedulableCoroutine<'static> = open_coroutine_core::co!(Some(format!("ppx-mon-co-{k}")), move |s: &Suspender<(), ()>, ()| {
                    for _ in 0..suspends {
                        s.suspend();
                    }
                    Some(k)
                }, Some(64 * 1024)).expect("co");
                let _ = sched.submit_raw_co(co);
                let mut r = Vec::new();
                for _ in 0..3 {
                    if let Ok(rs) = sched.try_schedule() {
                        r.extend(rs.into_iter().map(|(_, v)| format!("{v:?}")));
                    }
                }
                let _ = CoroutineState::<(), ()>::Ready;
                out.lock().unwrap().push(format!("T{k}:{r:?}"));
                std::mem::forget(sched);
            });
        }
        let tr = drive(prefix, 80, Duration::from_millis(2500));
        let mut o = out.lock().unwrap().clone();
        o.sort();
        em.emit(json!({"t":"out","results": o, "order": log_json(), "suspends": suspends}));
        let mut v = trace_json(&tr);
        v["t"] = json!("trace");
        em.emit(v);
    }

    pub fn judge(prefix: &[usize], res: &ChildResult, rep: &mut Report) {
        let scen = "ppx.mon";
        let replay = json!({"engine":"seqx-pre","scenario":scen,"schedule": prefix, "suspends": res.last("out").and_then(|o| o["suspends"].as_u64()).unwrap_or(0)});
        if !res.exit.ok() {
            rep.violation(&format!("{scen}/process-survives/{}", res.exit.describe()), format!("schedule prefix {prefix:?}: the process {}", res.exit.describe()), replay);
            return;
        }
        let Some(out) = res.last("out") else {
            rep.machinery_errors.push(format!("{scen}: incomplete records for prefix {prefix:?}"));
            return;
        };
        let order: Vec<String> = out["order"].as_array().unwrap().iter().map(|x| x.as_str().unwrap().to_string()).collect();
        let _ = rep.nontrivial.insert(order.join(","));
        // A data race is a reachable state in which two threads stand right before conflicting
        // accesses with nothing ordering them: both parked at an ":enter" point, at least one a mutation.
        let Some(tr) = res.last("trace") else { return };
        let mut seen: Vec<String> = Vec::new();
        for d in tr["decisions"].as_array().unwrap() {
            let at: Vec<(u64, String)> = d["enabled"].as_array().unwrap().iter().zip(d["at"].as_array().unwrap()).filter_map(|(t, l)| l.as_str().and_then(|l| l.strip_suffix(":enter")).map(|op| (t.as_u64().unwrap(), op.trim_start_matches("mon:").to_string()))).collect();
            for (i, (ta, a)) in at.iter().enumerate() {
                for (tb, b) in &at[i + 1..] {
                    if a == "scan" && b == "scan" {
                        continue;
                    }
                    let mut pair = [a.clone(), b.clone()];
                    pair.sort();
                    let sig = format!("{scen}/monitor-set-accesses-never-overlap/{}+{}", pair[0], pair[1]);
                    if !seen.contains(&sig) {
                        seen.push(sig.clone());
                        rep.violation(&sig, format!("schedule prefix {prefix:?}: thread T{ta} is about to {a} and thread T{tb} about to {b} the monitor's plain HashSet (UnsafeCell, no lock) at the same time: unsynchronised concurrent access; order so far {order:?}"), replay.clone());
                    }
                }
            }
        }
        if seen.is_empty() {
            rep.witness("schedules_without_a_race");
        }
        rep.witness("schedules_judged");
    }
}

pub fn run(scen: &str, tier: &str, rep: &mut Report) -> bool {
    let thorough = tier == "thorough";
    let cfg = RunCfg { hang_after: Duration::from_millis(15_000), ..RunCfg::default() };
    let deadline = Instant::now() + Duration::from_secs(if thorough { 1500 } else { 45 });
    let (ex, bound): (Explored, Option<usize>) = match scen {
        "ppx.wait" | "ppx.stop" | "ppx.stopwait" | "ppx.rewait" | "ppx.stop2" | "ppx.wait2" => {
            let (stop, unknown, prop, rewait, twostep) = match scen {
                "ppx.wait" | "ppx.wait2" => (false, false, "C02", false, false),
                "ppx.rewait" => (false, false, "C02", true, false),
                "ppx.stop" => (true, false, "C12", false, false),
                "ppx.stop2" => (true, true, "C12", false, true),
                _ => (true, true, "C12", false, false),
            };
            let twopools = scen == "ppx.wait2";
            let bound = None;
            rep.require(&["schedules_judged", "schedules_with_completion_inside_the_check_register_window"]);
            (explore(|p, em| pool_sc::exec(p, em, stop, unknown, rewait, twostep, twopools), |p, r, rep| pool_sc::judge(scen, prop, stop, unknown, p, r, rep), rep, &cfg, bound, if thorough { 20_000 } else { 3000 }, deadline), bound)
        }
        "ppx.migrate" => {
            let bound = None;
            let yields = if thorough { 2 } else { 1 };
            rep.require(&["schedules_judged", "schedules_in_which_the_other_pools_scheduler_took_the_worker_over"]);
            (explore(|p, em| mig_sc::exec(p, em, yields), |p, r, rep| mig_sc::judge(yields, p, r, rep), rep, &cfg, bound, if thorough { 20_000 } else { 3000 }, deadline), bound)
        }
        "ppx.schedmig" => {
            let bound = None;
            let yields = if thorough { 2 } else { 1 };
            rep.require(&["schedules_judged", "schedules_in_which_the_idle_scheduler_finished_a_stolen_coroutine"]);
            (explore(|p, em| smig_sc::exec(p, em, yields), |p, r, rep| smig_sc::judge(yields, p, r, rep), rep, &cfg, bound, if thorough { 20_000 } else { 3000 }, deadline), bound)
        }
        #[cfg(feature = "preemptive")]
        "ppx.mon" => {
            let bound = Some(if thorough { 3 } else { 2 });
            let suspends = usize::from(thorough);
            (explore(|p, em| mon_sc::exec(p, em, suspends), mon_sc::judge, rep, &cfg, bound, if thorough { 20_000 } else { 1500 }, deadline), bound)
        }
        _ => return false,
    };
    rep.bounds = json!({"threads": if scen == "ppx.mon" { "2 scheduling threads + the monitor thread" } else if scen == "ppx.schedmig" { "two scheduling threads, one per scheduler; the schedulers' ready queues steal from each other" } else if scen == "ppx.migrate" { "two scheduling threads, one per pool; the pools share the ready queue of coroutines" } else if scen == "ppx.wait2" { "waiter on the accepting pool + the thread scheduling a second pool that steals the task" } else { "waiter + scheduling thread" },
        "scheduling_points": "the crate's verif::point hooks listed in the scenario's filter", "preemption_bound": bound, "schedules": ex.schedules, "max_decisions_in_a_schedule": ex.max_decisions, "capped": ex.capped});
    rep.states = ex.schedules;
    rep.transitions = ex.schedules;
    rep.notes.push("every schedule is a distinct sequence of grants; distinct_nontrivial counts distinct point orders".into());
    true
}

pub fn replay(scen: &str, v: &Value, em: &mut Emitter) -> bool {
    let Some(p) = v.get("schedule").and_then(Value::as_array) else { return false };
    let prefix: Vec<usize> = p.iter().filter_map(|x| x.as_u64().map(|x| x as usize)).collect();
    match scen {
        "ppx.wait" => pool_sc::exec(&prefix, em, false, false, false, false, false),
        "ppx.wait2" => pool_sc::exec(&prefix, em, false, false, false, false, true),
        "ppx.rewait" => pool_sc::exec(&prefix, em, false, false, true, false, false),
        "ppx.stop" => pool_sc::exec(&prefix, em, true, false, false, false, false),
        "ppx.stopwait" => pool_sc::exec(&prefix, em, true, true, false, false, false),
        "ppx.stop2" => pool_sc::exec(&prefix, em, true, true, false, true, false),
        "ppx.migrate" => mig_sc::exec(&prefix, em, v.get("yields").and_then(Value::as_u64).unwrap_or(1) as usize),
        "ppx.schedmig" => smig_sc::exec(&prefix, em, v.get("yields").and_then(Value::as_u64).unwrap_or(1) as usize),
        #[cfg(feature = "preemptive")]
        "ppx.mon" => mon_sc::exec(&prefix, em, v.get("suspends").and_then(Value::as_u64).unwrap_or(0) as usize),
        _ => return false,
    }
    true
}
