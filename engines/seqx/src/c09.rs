//! C09 – delay and cancel requests affect only the coroutine that made them.
//! Enumerates sequences of 1..3 coroutines on one thread, each a program over plain suspends,
//! timed delays, cancels and syscall-state yields, under every resume interleaving.
use crate::explore::{sweep, Budget};
use crate::report::Report;
use crate::runner::{ChildResult, Emitter, RunCfg};
use crate::util::{interleavings, state_str};
use open_coroutine_core::common::constants::{CoroutineState, SyscallName, SyscallState};
use open_coroutine_core::coroutine::suspender::Suspender;
use open_coroutine_core::scheduler::SchedulableCoroutine;
use serde_json::{json, Value};
use std::time::Duration;

pub const T0: u64 = 1000;

#[derive(Debug, Clone, Copy, PartialEq, Eq)]
pub enum Step {
    Suspend,
    Delay0,
    Until,
    Cancel,
    SysYield,
    /// like SysYield, but the coroutine is still in the syscall's Executing phase when it yields
    SysYieldExec,
    SysCancel,
    /// (coroutine 0 only) resume coroutine 1 once from inside the body; not a yield
    Nest,
}

pub const STEPS: [Step; 7] = [
    Step::Suspend,
    Step::Delay0,
    Step::Until,
    Step::Cancel,
    Step::SysYield,
    Step::SysCancel,
    Step::SysYieldExec,
];

impl Step {
    fn name(self) -> &'static str {
        match self {
            Step::Suspend => "Suspend",
            Step::Delay0 => "Delay0",
            Step::Until => "Until",
            Step::Cancel => "Cancel",
            Step::SysYield => "SysYield",
            Step::SysYieldExec => "SysYieldExec",
            Step::SysCancel => "SysCancel",
            Step::Nest => "Nest",
        }
    }
    fn from(s: &str) -> Option<Step> {
        if s == "Nest" {
            return Some(Step::Nest);
        }
        STEPS.iter().copied().find(|x| x.name() == s)
    }
    fn terminal(self) -> bool {
        matches!(self, Step::Cancel | Step::SysCancel)
    }
}

/// timestamp requested by step k of coroutine i (unique, all <= T0 so they are due at once)
fn ts_of(i: usize, k: usize, st: Step) -> u64 {
    match st {
        Step::Until => 10 * (i as u64 + 1) + k as u64,
        Step::SysYield => 500 + 10 * (i as u64 + 1) + k as u64,
        Step::SysYieldExec => 700 + 10 * (i as u64 + 1) + k as u64,
        Step::Delay0 => T0,
        _ => 0,
    }
}

#[derive(Debug, Clone)]
pub struct Case {
    pub programs: Vec<Vec<Step>>,
    pub order: Vec<usize>,
}

impl Case {
    pub fn to_json(&self) -> Value {
        json!({
            "programs": self.programs.iter().map(|p| p.iter().map(|s| s.name()).collect::<Vec<_>>()).collect::<Vec<_>>(),
            "order": self.order,
        })
    }
    pub fn from_json(v: &Value) -> Option<Case> {
        let programs = v
            .get("programs")?
            .as_array()?
            .iter()
            .map(|p| {
                p.as_array()
                    .map(|a| a.iter().filter_map(|s| s.as_str().and_then(Step::from)).collect())
            })
            .collect::<Option<Vec<Vec<Step>>>>()?;
        let order = v
            .get("order")?
            .as_array()?
            .iter()
            .map(|x| x.as_u64().map(|x| x as usize))
            .collect::<Option<Vec<_>>>()?;
        Some(Case { programs, order })
    }
}

/// number of resumes program needs: one per step up to and including a terminal step, plus the
/// final one that lets it return
fn resumes(p: &[Step]) -> usize {
    let y = yields(p);
    match y.iter().position(|s| s.terminal()) {
        Some(i) => i + 1,
        None => y.len() + 1,
    }
}

/// the yielding steps of a program (Nest does not yield)
fn yields(p: &[Step]) -> Vec<Step> {
    p.iter().copied().filter(|s| *s != Step::Nest).collect()
}

/// Nest steps that are executed (those before a terminal step)
fn nests(p: &[Step]) -> usize {
    let end = p.iter().position(|s| s.terminal()).unwrap_or(p.len());
    p[..end].iter().filter(|s| **s == Step::Nest).count()
}

fn programs(max_len: usize) -> Vec<Vec<Step>> {
    programs_over(&STEPS, max_len)
}

fn programs_over(alphabet: &[Step], max_len: usize) -> Vec<Vec<Step>> {
    let mut out: Vec<Vec<Step>> = vec![vec![]];
    let mut level: Vec<Vec<Step>> = vec![vec![]];
    for _ in 0..max_len {
        let mut next = Vec::new();
        for p in &level {
            if p.last().is_some_and(|s| s.terminal()) {
                continue;
            }
            for s in alphabet {
                let mut q = p.clone();
                q.push(*s);
                next.push(q);
            }
        }
        out.extend(next.iter().cloned());
        level = next;
    }
    out
}

pub fn cases(tier: &str) -> Vec<Case> {
    let mut out = Vec::new();
    let thorough = tier == "thorough";
    let (l1, l2, l3) = if thorough { (4, 2, 1) } else { (3, 2, 1) };
    // one coroutine
    for p in programs(l1) {
        let n = resumes(&p);
        out.push(Case {
            programs: vec![p],
            order: vec![0; n],
        });
    }
    // nested: coroutine 0 resumes coroutine 1 from inside its body
    let inner = programs(2);
    let outer: Vec<Vec<Step>> = {
        let mut alpha: Vec<Step> = STEPS.to_vec();
        alpha.push(Step::Nest);
        let mut out: Vec<Vec<Step>> = vec![];
        let mut level: Vec<Vec<Step>> = vec![vec![]];
        for _ in 0..(if tier == "thorough" { 3 } else { 2 }) {
            let mut next = Vec::new();
            for p in &level {
                if p.last().is_some_and(|s| s.terminal()) {
                    continue;
                }
                for st in &alpha {
                    let mut q = p.clone();
                    q.push(*st);
                    next.push(q);
                }
            }
            out.extend(next.iter().filter(|p| p.contains(&Step::Nest)).cloned());
            level = next;
        }
        out
    };
    for a in &outer {
        for b in &inner {
            let nb = resumes(b);
            if nests(a) > nb {
                continue;
            }
            for order in interleavings(&[resumes(a), nb - nests(a)]) {
                out.push(Case {
                    programs: vec![a.clone(), b.clone()],
                    order,
                });
            }
        }
    }
    // two coroutines, all interleavings (quick: without Delay0, which differs from Until only in the
    // timestamp it asks for)
    let pair_alpha: Vec<Step> = STEPS.iter().copied().filter(|s| tier == "thorough" || *s != Step::Delay0).collect();
    let ps = programs_over(&pair_alpha, l2);
    for a in &ps {
        for b in &ps {
            for order in interleavings(&[resumes(a), resumes(b)]) {
                out.push(Case {
                    programs: vec![a.clone(), b.clone()],
                    order,
                });
            }
        }
    }

    if thorough {
        // longer pair programs over a smaller alphabet (the pairs above cover every step kind at length 2)
        let small = [Step::Suspend, Step::Until, Step::Cancel, Step::SysYield, Step::SysYieldExec];
        let ps3: Vec<Vec<Step>> = programs_over(&small, 3).into_iter().filter(|p| p.len() == 3).collect();
        let ps_all = programs_over(&small, 3);
        for a in &ps3 {
            for b in &ps_all {
                for order in interleavings(&[resumes(a), resumes(b)]) {
                    out.push(Case { programs: vec![a.clone(), b.clone()], order });
                }
            }
        }
        // and three coroutines of two steps over {Suspend, SysYield, Cancel}
        let tiny = [Step::Suspend, Step::SysYield, Step::Cancel];
        let pt = programs_over(&tiny, 2);
        for a in &pt {
            for b in &pt {
                for c in &pt {
                    if a.len() + b.len() + c.len() < 4 {
                        continue;
                    }
                    for order in interleavings(&[resumes(a), resumes(b), resumes(c)]) {
                        out.push(Case { programs: vec![a.clone(), b.clone(), c.clone()], order });
                    }
                }
            }
        }
    }
    // three coroutines
    let ps = programs(l3);
    for a in &ps {
        for b in &ps {
            for c in &ps {
                for order in interleavings(&[resumes(a), resumes(b), resumes(c)]) {
                    out.push(Case {
                        programs: vec![a.clone(), b.clone(), c.clone()],
                        order,
                    });
                }
            }
        }
    }
    out
}

struct Shared {
    cos: Vec<Option<Box<SchedulableCoroutine<'static>>>>,
    step: Vec<usize>,
    fd: i32,
}

/// resume coroutine i once (playing the scheduler for a parked syscall) and emit the record
#[allow(dangerous_implicit_autorefs)]
unsafe fn resume_one(sh: *mut Shared, i: usize, nested: bool) {
    let co: *mut SchedulableCoroutine<'static> = &mut **(*sh).cos[i].as_mut().expect("coroutine");
    if let CoroutineState::Syscall((), name, SyscallState::Suspend(_)) = (*co).state() {
        (*co).syscall((), name, SyscallState::Timeout).expect("timeout transition");
    }
    let r = (*co).resume();
    let s = match r {
        Ok(st) => state_str(&st),
        Err(e) => format!("Err({e})"),
    };
    let k = (*sh).step[i];
    (*sh).step[i] += 1;
    Emitter::from_fd((*sh).fd).emit(json!({"t":"resume","co":i,"k":k,"state":s,"nested":nested}));
}

#[allow(dangerous_implicit_autorefs)]
pub fn exec(case: &Case, em: &mut Emitter) {
    open_coroutine_core::verif::clock_enable(T0);
    let m = case.programs.len();
    let sh: *mut Shared = Box::into_raw(Box::new(Shared { cos: (0..m).map(|_| None).collect(), step: vec![0; m], fd: em.raw_fd() }));
    for (i, prog) in case.programs.iter().enumerate() {
        let prog = prog.clone();
        let shp = sh as usize;
        let co = open_coroutine_core::co!(
            Some(format!("c09-{i}")),
            move |s: &Suspender<(), ()>, ()| {
                let mut k = 0usize; // index among the yielding steps
                for st in prog.iter() {
                    match st {
                        Step::Nest => {
                            unsafe { resume_one(shp as *mut Shared, 1, true) };
                            continue;
                        }
                        Step::Suspend => s.suspend(),
                        Step::Delay0 => s.delay(Duration::ZERO),
                        Step::Until => s.until(ts_of(i, k, *st)),
                        Step::Cancel => s.cancel(),
                        Step::SysYield => {
                            let t = ts_of(i, k, *st);
                            let co = SchedulableCoroutine::current().expect("current co");
                            co.syscall((), SyscallName::sleep, SyscallState::Suspend(t))
                                .expect("enter syscall");
                            s.until(t);
                            let co = SchedulableCoroutine::current().expect("current co");
                            co.syscall((), SyscallName::sleep, SyscallState::Executing)
                                .expect("syscall executing");
                            co.running().expect("leave syscall");
                        }
                        Step::SysYieldExec => {
                            let t = ts_of(i, k, *st);
                            let co = SchedulableCoroutine::current().expect("current co");
                            co.syscall((), SyscallName::sleep, SyscallState::Executing)
                                .expect("enter syscall");
                            s.until(t);
                            let co = SchedulableCoroutine::current().expect("current co");
                            co.syscall((), SyscallName::sleep, SyscallState::Executing)
                                .expect("syscall executing");
                            co.running().expect("leave syscall");
                        }
                        Step::SysCancel => {
                            let co = SchedulableCoroutine::current().expect("current co");
                            co.syscall((), SyscallName::sleep, SyscallState::Executing)
                                .expect("enter syscall");
                            s.cancel()
                        }
                    }
                    k += 1;
                }
                Some(i)
            },
            Some(64 * 1024)
        )
        .expect("create coroutine");
        unsafe { (*sh).cos[i] = Some(Box::new(co)) };
    }
    for &i in &case.order {
        unsafe { resume_one(sh, i, false) };
    }
    // unfinished coroutines are simply dropped (force_reset)
    drop(unsafe { Box::from_raw(sh) });
}

fn kind(i: usize, k: usize, st: Option<Step>) -> Vec<String> {
    // acceptable reported states for this yield
    match st {
        None => vec![format!("Complete(Some({i}))")],
        Some(Step::Suspend) => vec!["Suspend(0)".into()],
        Some(s @ (Step::Delay0 | Step::Until)) => vec![format!("Suspend({})", ts_of(i, k, s))],
        Some(Step::Cancel) => vec!["Cancelled".into()],
        Some(s @ Step::SysYield) => vec![format!("Syscall(sleep,Suspend({}))", ts_of(i, k, s))],
        Some(Step::SysYieldExec) => vec!["Syscall(sleep,Executing)".to_string()],
        // a cancel requested from inside a syscall state: the statement does not say which of
        // the two it must be reported as – both are accepted for the requester itself
        Some(Step::SysCancel) => vec!["Syscall(sleep,Executing)".into(), "Cancelled".into()],
        Some(Step::Nest) => unreachable!("Nest is not a yielding step"),
    }
}

pub fn judge(case: &Case, res: &ChildResult, rep: &mut Report) {
    let replay = || json!({"engine":"seqx","scenario":"c09.seq","case":case.to_json()});
    if !res.exit.ok() {
        rep.violation(
            &format!("c09.seq/process-died/{}", res.exit.describe()),
            format!("child {} ; records {:?}", res.exit.describe(), res.records),
            replay(),
        );
        return;
    }
    let rs = res.find("resume");
    let expected_records = case.order.len() + nests(&case.programs[0]);
    if rs.len() != expected_records {
        rep.machinery_errors
            .push(format!("c09: {} resume records for {} resumes in {}", rs.len(), expected_records, case.to_json()));
        return;
    }
    if nests(&case.programs[0]) > 0 {
        rep.witness("cases_with_nested_resume");
    }
    // which requests were made so far by whom (for the witness class)
    let mut made: Vec<(usize, Step, u64, bool)> = Vec::new();
    let mut nontrivial = false;
    for r in rs {
        let i = r["co"].as_u64().unwrap() as usize;
        let k = r["k"].as_u64().unwrap() as usize;
        let got = r["state"].as_str().unwrap().to_string();
        let st = yields(&case.programs[i]).get(k).copied();
        let ok = kind(i, k, st);
        if !ok.contains(&got) {
            // attribute: whose request is this?
            let mut origin = "unknown".to_string();
            // candidates are requests that the runtime has not consumed yet (LIFO stacks)
            for (j, s, t, consumed) in made.iter().rev() {
                if *consumed {
                    continue;
                }
                let hit = (got.contains(&format!("Suspend({t})")) && *t != 0)
                    || (got == "Cancelled" && s.terminal());
                if hit {
                    origin = format!(
                        "{}-of-{}",
                        s.name(),
                        if *j == i { "same-coroutine" } else { "other-coroutine" }
                    );
                    break;
                }
            }
            let want = st.map_or("Return", |s| s.name());
            let got_kind = got.split('(').next().unwrap_or("?").to_string();
            rep.violation(
                &format!("c09.seq/{want}-reported-as-{got_kind}/request-leaked-from-{origin}"),
                format!("coroutine {i} step {k} ({want}) expected one of {ok:?}, resume reported {got}"),
                replay(),
            );
            return;
        }
        if let Some(s) = st {
            // a request is consumed when the resume that carried it reported it; a yield
            // reported as a Syscall state leaves its timestamp / cancel request pending
            let consumed = !got.starts_with("Syscall(");
            made.push((i, s, ts_of(i, k, s), consumed));
            if matches!(s, Step::SysYield | Step::SysYieldExec | Step::SysCancel) && case.programs.len() > 1 {
                nontrivial = true;
            }
        }
    }
    if nontrivial {
        rep.witness("cases_with_syscall_state_yield_next_to_other_coroutines");
    }
    if case.programs.len() >= 2 {
        rep.nontrivial.insert(case.to_json().to_string());
    }
}

pub fn run(tier: &str, rep: &mut Report) {
    let cs = cases(tier);
    rep.bounds = json!({
        "coroutines": "1..=3",
        "program_len": if tier == "thorough" { "<=3 (1,2 coroutines), <=2 (3 coroutines)" } else { "<=3 (1 coroutine), <=2 (2), <=1 (3)" },
        "steps": STEPS.iter().map(|s| s.name()).collect::<Vec<_>>(),
        "resume_orders": "all interleavings",
        "cases": cs.len(),
    });
    rep.require(&["cases_with_syscall_state_yield_next_to_other_coroutines", "cases_with_nested_resume"]);
    if std::env::var_os("SEQX_COUNT").is_some() {
        eprintln!("c09.seq {tier}: {} cases", cs.len());
        return;
    }
    for c in cs.iter().step_by((cs.len() / 4).max(1)).take(4) {
        rep.sample(c.to_json());
    }
    let cfg = RunCfg::default();
    let budget = Budget::secs(if tier == "thorough" { 1500 } else { 45 });
    sweep(&cs, 64, rep, &cfg, &budget, exec, judge);
    rep.states = rep.evaluations;
    rep.transitions = cs.iter().map(|c| c.order.len() as u64).sum();
}

pub fn replay(v: &Value, em: &mut Emitter) -> bool {
    match v.get("case").and_then(Case::from_json) {
        Some(c) => {
            exec(&c, em);
            true
        }
        None => false,
    }
}
