use open_coroutine_core::common::constants::{CoroutineState, SyscallState};
use std::fmt::Debug;

/// all interleavings of sequences in which thread i takes `counts[i]` steps (canonical order:
/// lowest index first)
pub fn interleavings(counts: &[usize]) -> Vec<Vec<usize>> {
    fn rec(left: &mut Vec<usize>, cur: &mut Vec<usize>, out: &mut Vec<Vec<usize>>) {
        if left.iter().all(|c| *c == 0) {
            out.push(cur.clone());
            return;
        }
        for i in 0..left.len() {
            if left[i] > 0 {
                left[i] -= 1;
                cur.push(i);
                rec(left, cur, out);
                let _ = cur.pop();
                left[i] += 1;
            }
        }
    }
    let mut out = Vec::new();
    rec(&mut counts.to_vec(), &mut Vec::new(), &mut out);
    out
}

pub fn sys_state_str(s: &SyscallState) -> String {
    match s {
        SyscallState::Executing => "Executing".into(),
        SyscallState::Suspend(t) => format!("Suspend({t})"),
        SyscallState::Timeout => "Timeout".into(),
        SyscallState::Callback => "Callback".into(),
    }
}

/// deterministic, address-free rendering of a coroutine state
pub fn state_str<Y: Debug, R: Debug>(s: &CoroutineState<Y, R>) -> String {
    match s {
        CoroutineState::Ready => "Ready".into(),
        CoroutineState::Running => "Running".into(),
        CoroutineState::Suspend(y, t) => {
            let y = format!("{y:?}");
            if y == "()" {
                format!("Suspend({t})")
            } else {
                format!("Suspend({y},{t})")
            }
        }
        CoroutineState::Syscall(y, n, st) => {
            let y = format!("{y:?}");
            if y == "()" {
                format!("Syscall({n},{})", sys_state_str(st))
            } else {
                format!("Syscall({y},{n},{})", sys_state_str(st))
            }
        }
        CoroutineState::Cancelled => "Cancelled".into(),
        CoroutineState::Complete(r) => format!("Complete({r:?})"),
        CoroutineState::Error(m) => format!("Error({m})"),
    }
}

pub fn permutations(n: usize) -> Vec<Vec<usize>> {
    fn rec(cur: &mut Vec<usize>, used: &mut Vec<bool>, out: &mut Vec<Vec<usize>>) {
        if cur.len() == used.len() {
            out.push(cur.clone());
            return;
        }
        for i in 0..used.len() {
            if !used[i] {
                used[i] = true;
                cur.push(i);
                rec(cur, used, out);
                let _ = cur.pop();
                used[i] = false;
            }
        }
    }
    let mut out = Vec::new();
    rec(&mut Vec::new(), &mut vec![false; n], &mut out);
    out
}
