//! C14 – hooked timed waits honour the requested timeout.
//! Synchronous event loop, virtual clock, scripted inner functions that report "nothing ready".
//! Callers: a task body (coroutine) and the plain driver thread.
use crate::explore::{sweep, Budget};
use crate::report::Report;
use crate::runner::{ChildResult, Emitter, RunCfg};
use open_coroutine_core::common::constants::SLICE;
use open_coroutine_core::common::now;
use open_coroutine_core::net::verif_facade::SyncLoop;
use open_coroutine_core::syscall as sc;
use serde_json::{json, Value};
use std::ffi::{c_int, c_uint};
use std::sync::{Arc, Mutex};
use std::time::Duration;

const T0: u64 = 1_700_000_000_000_000_000;
const MS: u64 = 1_000_000;
/// one loop turn to notice, one to reschedule, plus rounding: fixed before looking at results
pub const SLACK: u64 = 2 * 10 * MS + MS;
const HORIZON: u64 = 6_000 * MS;

thread_local! {
    /// how many of the next selector polls fail the way an interrupted epoll_wait does
    static POLL_FAULTS: std::cell::Cell<u32> = const { std::cell::Cell::new(0) };
}

fn choice(site: &'static str, _n: usize) -> usize {
    if site != "select:poll" {
        return 0;
    }
    POLL_FAULTS.with(|f| {
        if f.get() > 0 {
            f.set(f.get() - 1);
            1
        } else {
            0
        }
    })
}

#[derive(Clone, Debug)]
pub struct Case {
    call: String,
    /// requested wait in ns; None = infinite
    req: Option<u64>,
    /// how the argument is expressed (for invalid arguments): (a, b) raw fields
    raw: (i64, i64),
    invalid: bool,
    coroutine: bool,
    /// coroutine callers only: before the timed call the coroutine waited for a socket and that wait
    /// timed out (its registration and token stay behind); this long into the timed call the socket
    /// becomes readable
    stale_ready_at: Option<u64>,
    /// the first N selector polls made during the call are interrupted (EINTR)
    interrupted_polls: u32,
}

impl Case {
    fn to_json(&self) -> Value {
        json!({"call": self.call, "requested_ns": self.req, "raw": [self.raw.0.to_string(), self.raw.1.to_string()], "invalid": self.invalid, "caller": if self.coroutine { "coroutine" } else { "thread" }, "earlier_socket_wait_becomes_ready_at_ns": self.stale_ready_at, "interrupted_polls": self.interrupted_polls})
    }
    fn from_json(v: &Value) -> Option<Case> {
        Some(Case {
            call: v.get("call")?.as_str()?.to_string(),
            req: v.get("requested_ns").and_then(Value::as_u64),
            raw: (v.get("raw")?.get(0)?.as_str()?.parse().ok()?, v.get("raw")?.get(1)?.as_str()?.parse().ok()?),
            invalid: v.get("invalid")?.as_bool()?,
            coroutine: v.get("caller")?.as_str()? == "coroutine",
            stale_ready_at: v.get("earlier_socket_wait_becomes_ready_at_ns").and_then(Value::as_u64),
            interrupted_polls: v.get("interrupted_polls").and_then(Value::as_u64).unwrap_or(0) as u32,
        })
    }
}

extern "C" fn inner_poll(_: *mut libc::pollfd, _: libc::nfds_t, _: c_int) -> c_int {
    0
}
extern "C" fn inner_select(_: c_int, _: *mut libc::fd_set, _: *mut libc::fd_set, _: *mut libc::fd_set, _: *mut libc::timeval) -> c_int {
    0
}
/// the kernel's condvar wait under the virtual clock: nobody signals, time passes until abstime
extern "C" fn inner_cond(_: *mut libc::pthread_cond_t, _: *mut libc::pthread_mutex_t, abstime: *const libc::timespec) -> c_int {
    let t = unsafe { *abstime };
    let ns = (t.tv_sec as u64).saturating_mul(1_000_000_000).saturating_add(t.tv_nsec as u64);
    if ns > now() {
        open_coroutine_core::verif::clock_set(ns);
    }
    libc::ETIMEDOUT
}

/// perform the call; returns (ret, errno, extra)
fn do_call(c: &Case) -> (i64, i32, Value) {
    sc::set_errno(0);
    let (a, b) = c.raw;
    match c.call.as_str() {
        "sleep" => {
            let r = sc::sleep(None, a as c_uint);
            (i64::from(r), errno(), json!(null))
        }
        "usleep" => {
            let r = sc::usleep(None, a as c_uint);
            (i64::from(r), errno(), json!(null))
        }
        "nanosleep" => {
            let rq = libc::timespec { tv_sec: a, tv_nsec: b };
            let mut rm = libc::timespec { tv_sec: 7, tv_nsec: 7 };
            let r = sc::nanosleep(None, &rq, &mut rm);
            (i64::from(r), errno(), json!({"rmtp": [rm.tv_sec, rm.tv_nsec]}))
        }
        "poll" => {
            let f: extern "C" fn(*mut libc::pollfd, libc::nfds_t, c_int) -> c_int = inner_poll;
            let r = sc::poll(Some(&f), std::ptr::null_mut(), 0, a as c_int);
            (i64::from(r), errno(), json!(null))
        }
        "select" => {
            let f: extern "C" fn(c_int, *mut libc::fd_set, *mut libc::fd_set, *mut libc::fd_set, *mut libc::timeval) -> c_int = inner_select;
            let mut tv = libc::timeval { tv_sec: a, tv_usec: b };
            let p = if c.req.is_none() && !c.invalid { std::ptr::null_mut() } else { &mut tv as *mut libc::timeval };
            let r = sc::select(Some(&f), 0, std::ptr::null_mut(), std::ptr::null_mut(), std::ptr::null_mut(), p);
            (i64::from(r), errno(), json!(null))
        }
        "pthread_cond_timedwait" => unsafe {
            let f: extern "C" fn(*mut libc::pthread_cond_t, *mut libc::pthread_mutex_t, *const libc::timespec) -> c_int = inner_cond;
            let mut cond: libc::pthread_cond_t = libc::PTHREAD_COND_INITIALIZER;
            let mut m: libc::pthread_mutex_t = libc::PTHREAD_MUTEX_INITIALIZER;
            let abs = if c.invalid {
                libc::timespec { tv_sec: a, tv_nsec: b }
            } else {
                let t = now() + c.req.unwrap_or(0);
                libc::timespec { tv_sec: (t / 1_000_000_000) as i64, tv_nsec: (t % 1_000_000_000) as i64 }
            };
            let r = sc::pthread_cond_timedwait(Some(&f), &mut cond, &mut m, &abs);
            (i64::from(r), 0, json!(null))
        },
        _ => (-99, 0, json!(null)),
    }
}

fn errno() -> i32 {
    std::io::Error::last_os_error().raw_os_error().unwrap_or(0)
}

/// what the native libc call does with the same invalid argument (differential oracle)
fn native_invalid(c: &Case) -> (i64, i32) {
    let (a, b) = c.raw;
    unsafe {
        *libc::__errno_location() = 0;
        match c.call.as_str() {
            "nanosleep" => {
                let rq = libc::timespec { tv_sec: a, tv_nsec: b };
                let r = libc::nanosleep(&rq, std::ptr::null_mut());
                (i64::from(r), errno())
            }
            "select" => {
                let mut tv = libc::timeval { tv_sec: a, tv_usec: b };
                let r = libc::select(0, std::ptr::null_mut(), std::ptr::null_mut(), std::ptr::null_mut(), &mut tv);
                (i64::from(r), errno())
            }
            "pthread_cond_timedwait" => {
                let mut cond: libc::pthread_cond_t = libc::PTHREAD_COND_INITIALIZER;
                let mut m: libc::pthread_mutex_t = libc::PTHREAD_MUTEX_INITIALIZER;
                libc::pthread_mutex_lock(&mut m);
                let abs = libc::timespec { tv_sec: a, tv_nsec: b };
                let r = libc::pthread_cond_timedwait(&mut cond, &mut m, &abs);
                libc::pthread_mutex_unlock(&mut m);
                (i64::from(r), 0)
            }
            _ => (0, 0),
        }
    }
}

pub fn exec(c: &Case, em: &mut Emitter) {
    std::panic::set_hook(Box::new(|_| {}));
    if c.invalid {
        let (nr, ne) = native_invalid(c);
        em.emit(json!({"t":"native","ret":nr,"errno":ne}));
    }
    open_coroutine_core::verif::clock_enable(T0);
    open_coroutine_core::verif::set_choice_hook(Some(choice));
    let mut lp = SyncLoop::new("c14-loop", 128 * 1024, 0, 4, 0).expect("loop");
    lp.enter();
    em.emit(json!({"t":"begin"}));
    if c.coroutine {
        let out: Arc<Mutex<Option<(u64, u64, i64, i32, Value)>>> = Arc::new(Mutex::new(None));
        let (o2, c2) = (out.clone(), c.clone());
        let started: Arc<Mutex<Option<u64>>> = Arc::new(Mutex::new(None));
        let st2 = started.clone();
        let mut sv = [-1; 2];
        if c.stale_ready_at.is_some() {
            unsafe {
                assert_eq!(0, libc::socketpair(libc::AF_UNIX, libc::SOCK_STREAM, 0, sv.as_mut_ptr()));
                let tv = libc::timeval { tv_sec: 0, tv_usec: 5_000 };
                assert_eq!(0, libc::setsockopt(sv[0], libc::SOL_SOCKET, libc::SO_RCVTIMEO, std::ptr::from_ref(&tv).cast(), size_of::<libc::timeval>() as u32));
            }
        }
        let rfd = sv[0];
        let _ = lp
            .pool()
            .submit_task(Some("c14-task".into()), move |_| {
                if rfd >= 0 {
                    // a hooked read that times out after 5 ms
                    let mut b = [0u8; 1];
                    let r = sc::read(None, rfd, b.as_mut_ptr().cast(), 1);
                    assert_eq!(-1, r, "the preparing read must time out");
                }
                POLL_FAULTS.with(|f| f.set(c2.interrupted_polls));
                let t0 = now();
                *st2.lock().unwrap() = Some(t0);
                let (r, e, x) = do_call(&c2);
                *o2.lock().unwrap() = Some((t0, now(), r, e, x));
                Some(0)
            }, None, None)
            .expect("submit");
        // the loop thread's own cycle: wait_event(SLICE) until the task is done or the horizon
        let mut turns = 0u64;
        let mut written = false;
        while out.lock().unwrap().is_none() && now() < T0 + HORIZON + 50 * MS {
            if let (false, Some(at), Some(t0)) = (written, c.stale_ready_at, *started.lock().unwrap()) {
                if now() >= t0 + at {
                    let b = [9u8];
                    assert_eq!(1, unsafe { libc::write(sv[1], b.as_ptr().cast(), 1) });
                    written = true;
                }
            }
            let _ = lp.wait_event(Some(SLICE));
            turns += 1;
            if turns > 100_000 {
                break;
            }
        }
        let taken = out.lock().unwrap().take();
        match taken {
            Some((t0, t1, r, e, x)) => em.emit(json!({"t":"returned","elapsed_ns": t1 - t0, "ret": r, "errno": e, "extra": x, "loop_turns": turns, "peer_written": written})),
            None => em.emit(json!({"t":"not_returned","virtual_elapsed_ns": now() - T0, "loop_turns": turns})),
        }
    } else {
        // an infinite wait on the calling thread can not be cut short from outside: the horizon is
        // enforced by the virtual clock saturating (see judge) and by the runner's hang detection
        POLL_FAULTS.with(|f| f.set(c.interrupted_polls));
        let t0 = now();
        let (r, e, x) = do_call(c);
        em.emit(json!({"t":"returned","elapsed_ns": now() - t0, "ret": r, "errno": e, "extra": x, "loop_turns": 0}));
    }
    lp.leave();
    lp.forget();
}

pub fn cases(tier: &str) -> Vec<Case> {
    let mut v = Vec::new();
    let thorough = tier == "thorough";
    for coroutine in [true, false] {
        let mut add = |call: &str, req: Option<u64>, raw: (i64, i64), invalid: bool| {
            v.push(Case { call: call.into(), req, raw, invalid, coroutine, stale_ready_at: None, interrupted_polls: 0 });
            if let (true, false, Some(r)) = (coroutine, invalid, req) {
                if r >= 100 * MS {
                    for at in [r / 4, r / 2 + 3 * MS] {
                        v.push(Case { call: call.into(), req, raw, invalid, coroutine, stale_ready_at: Some(at), interrupted_polls: 0 });
                    }
                }
            }
            // signals interrupt the selector while the call waits
            if let (false, Some(r)) = (invalid, req) {
                if r >= 15 * MS && r <= 1000 * MS {
                    v.push(Case { call: call.into(), req, raw, invalid, coroutine, stale_ready_at: None, interrupted_polls: 4 });
                }
            }
        };
        for s in [0i64, 1, 2] {
            add("sleep", Some(s as u64 * 1000 * MS), (s, 0), false);
        }
        // 4_294_967 us is the last value whose nanoseconds fit 32 bits
        let us: Vec<i64> = if thorough { vec![0, 1, 999, 1000, 9_999, 10_000, 10_001, 15_000, 100_000, 1_000_000, 2_500_000, 4_000_000, 4_294_967, 4_294_968, 4_300_000] } else { vec![0, 1, 999, 1000, 9_999, 10_000, 10_001, 15_000, 100_000, 1_000_000, 2_500_000, 4_294_968] };
        for u in &us {
            add("usleep", Some(*u as u64 * 1000), (*u, 0), false);
        }
        // thorough: a denser grid of durations between the boundary values
        let extra_ms: Vec<u64> = if thorough { vec![2, 3, 5, 7, 19, 20, 21, 25, 37, 50, 99, 101, 250, 500, 999, 1001, 1500, 2000, 3000] } else { vec![] };
        for ns in [0u64, 1, 999_000, MS, 10 * MS - 1, 10 * MS, 10 * MS + 1, 15 * MS, 100 * MS, 1000 * MS, 2500 * MS].into_iter().chain(extra_ms.iter().map(|m| m * MS)).chain(extra_ms.iter().map(|m| m * MS + 1)) {
            add("nanosleep", Some(ns), ((ns / 1_000_000_000) as i64, (ns % 1_000_000_000) as i64), false);
        }
        for raw in [(-1i64, 0i64), (0, -1), (0, 1_000_000_000), (1, 1_000_000_000)] {
            add("nanosleep", Some(0), raw, true);
        }
        for ms in [0i64, 1, 9, 10, 11, 15, 100, 1000, 2500].into_iter().chain(extra_ms.iter().map(|m| *m as i64)) {
            add("poll", Some(ms as u64 * MS), (ms, 0), false);
        }
        for u in [0u64, 1, 999, 1000, 10_000, 15_000, 100_000, 1_000_000, 2_500_000].into_iter().chain(extra_ms.iter().map(|m| m * 1000)).chain(extra_ms.iter().map(|m| m * 1000 + 1)) {
            add("select", Some(u * 1000), ((u / 1_000_000) as i64, (u % 1_000_000) as i64), false);
        }
        for raw in [(-1i64, 0i64), (0, -1)] {
            add("select", Some(0), raw, true);
        }
        for ns in [0u64, 1, 999_000, MS, 10 * MS, 15 * MS, 100 * MS, 1000 * MS, 2500 * MS].into_iter().chain(extra_ms.iter().map(|m| m * MS)) {
            add("pthread_cond_timedwait", Some(ns), (0, 0), false);
        }
        for raw in [(1_700_000_100i64, 1_000_000_000i64), (1_700_000_100, -1)] {
            add("pthread_cond_timedwait", Some(0), raw, true);
        }
        if coroutine {
            // infinite waits must simply not have returned by the horizon
            add("poll", None, (-1, 0), false);
            add("select", None, (0, 0), false);
        }
    }
    v
}

pub fn judge(c: &Case, res: &ChildResult, rep: &mut Report) {
    let replay = || json!({"engine":"seqx","scenario":"c14.timed","case":c.to_json()});
    let who = if c.coroutine { "coroutine" } else { "thread" };
    let began = !res.find("begin").is_empty();
    if !res.exit.ok() {
        let class = if c.invalid { "invalid-argument" } else { "valid-argument" };
        rep.violation(&format!("c14.timed/call-survives/{}:{}:{class}", c.call, res.exit.describe()),
            format!("{}: the process {} {}", c.to_json(), res.exit.describe(), if began { "inside the hooked call" } else { "before the call" }), replay());
        return;
    }
    let _ = rep.nontrivial.insert(c.to_json().to_string());
    if c.invalid {
        let nat = res.last("native").cloned().unwrap_or(json!({}));
        let Some(r) = res.last("returned") else {
            rep.violation(&format!("c14.timed/invalid-argument-rejected-like-native/{}", c.call), format!("{}: the hooked call did not return (native: {nat})", c.to_json()), replay());
            return;
        };
        let same = r["ret"] == nat["ret"] && (c.call == "pthread_cond_timedwait" || r["errno"] == nat["errno"]);
        if !same {
            rep.violation(&format!("c14.timed/invalid-argument-rejected-like-native/{}", c.call),
                format!("{} ({who}): hooked call returned {} errno {}, native returns {} errno {}", c.to_json(), r["ret"], r["errno"], nat["ret"], nat["errno"]), replay());
        }
        rep.witness("invalid_arguments_compared_with_native");
        return;
    }
    match (c.req, res.last("returned")) {
        (None, Some(r)) => {
            rep.violation(&format!("c14.timed/infinite-wait-does-not-return/{}", c.call), format!("{} ({who}): an infinite wait returned after {}ns", c.to_json(), r["elapsed_ns"]), replay());
        }
        (None, None) => rep.witness("infinite_waits_checked"),
        (Some(req), None) => {
            rep.violation(&format!("c14.timed/returns-no-later-than-timeout-plus-slack/{}:{who}", c.call),
                format!("{} ({who}): requested {req}ns, had not returned after {}ns of virtual time (slack {SLACK}ns)", c.to_json(), HORIZON), replay());
        }
        (Some(req), Some(r)) => {
            let el = r["elapsed_ns"].as_u64().unwrap_or(0);
            if el < req {
                rep.violation(&format!("c14.timed/never-returns-early/{}:{who}", c.call), format!("{} ({who}): requested {req}ns, returned after {el}ns", c.to_json()), replay());
            } else if el > req + SLACK {
                rep.violation(&format!("c14.timed/returns-no-later-than-timeout-plus-slack/{}:{who}", c.call), format!("{} ({who}): requested {req}ns, returned after {el}ns (slack {SLACK}ns)", c.to_json()), replay());
            }
            // return values as native
            let want_ret = if c.call == "pthread_cond_timedwait" { i64::from(libc::ETIMEDOUT) } else { 0 };
            if r["ret"].as_i64() != Some(want_ret) {
                rep.violation(&format!("c14.timed/return-value-as-native/{}", c.call), format!("{} ({who}): returned {}, native returns {want_ret} on timeout", c.to_json(), r["ret"]), replay());
            }
            if c.call == "nanosleep" && r["extra"]["rmtp"] != json!([0, 0]) {
                rep.violation("c14.timed/return-value-as-native/nanosleep-rmtp", format!("{} ({who}): remaining time reported as {}", c.to_json(), r["extra"]["rmtp"]), replay());
            }
            rep.witness(if c.coroutine { "coroutine_callers" } else { "thread_callers" });
            if c.interrupted_polls > 0 {
                rep.witness("calls_with_interrupted_polls");
            }
            if c.stale_ready_at.is_some() {
                if r["peer_written"] == json!(true) {
                    rep.witness("stale_socket_became_ready_during_the_wait");
                } else {
                    rep.machinery_errors.push(format!("c14: {}: the peer was never written", c.to_json()));
                }
            }
        }
    }
}

pub fn run(tier: &str, rep: &mut Report) {
    let cs = cases(tier);
    rep.bounds = json!({"calls":["sleep","usleep","nanosleep","poll","select","pthread_cond_timedwait"],"callers":["coroutine on a synchronous loop","plain thread"],
        "timeouts": if tier == "thorough" { "0, smallest unit, 999us, 1ms, 10ms-1, 10ms, 10ms+1, 15ms, 100ms, 1s, 2.5s (per call's unit) plus 2,3,5,7,19,20,21,25,37,50,99,101,250,500,999,1001,1500,2000,3000 ms (each also plus one smallest unit for nanosleep / select); infinite for poll/select" } else { "0, smallest unit, 999us, 1ms, 10ms-1, 10ms, 10ms+1, 15ms, 100ms, 1s, 2.5s (per call's unit); infinite for poll/select" },
        "stale_readiness": "coroutine callers, waits >= 100 ms: an earlier hooked read of the same coroutine timed out and its socket becomes readable a quarter / half way into the timed call",
        "interrupted_polls": "waits of 15 ms .. 1 s also run with the first 4 selector polls failing with EINTR",
        "slack_ns": SLACK, "horizon_ns": HORIZON, "cases": cs.len()});
    rep.require(&["coroutine_callers", "thread_callers", "invalid_arguments_compared_with_native", "infinite_waits_checked", "stale_socket_became_ready_during_the_wait", "calls_with_interrupted_polls"]);
    for c in cs.iter().step_by((cs.len() / 4).max(1)).take(4) {
        rep.sample(c.to_json());
    }
    let cfg = RunCfg { hang_after: Duration::from_millis(4000), ..RunCfg::default() };
    let budget = Budget::secs(if tier == "thorough" { 900 } else { 50 });
    sweep(&cs, 1, rep, &cfg, &budget, exec, judge);
    rep.states = rep.evaluations;
    rep.transitions = rep.evaluations;
}

pub fn replay(v: &Value, em: &mut Emitter) -> bool {
    match v.get("case").and_then(Case::from_json) {
        Some(c) => {
            exec(&c, em);
            true
        }
        None => false,
    }
}
