//! Result file written by every engine run; `bin/check` turns it into evidence, replay files and
//! VIOLATION / KNOWN-FINDING lines.
use serde_json::{json, Value};
use std::collections::{BTreeMap, BTreeSet};
use std::time::Instant;

#[derive(Debug, Clone)]
pub struct Violation {
    pub property: String,
    /// `<scenario>/<oracle clause>/<witness class>` – stable across runs, used for known findings
    pub signature: String,
    pub detail: String,
    /// everything needed to re-execute: scenario name + config + history/schedule/script
    pub replay: Value,
}

pub struct Report {
    pub property: String,
    pub scenario: String,
    pub tier: String,
    start: Instant,
    pub evaluations: u64,
    pub states: u64,
    pub transitions: u64,
    pub validated_against_impl: u64,
    pub outcomes: BTreeSet<String>,
    pub nontrivial: BTreeSet<String>,
    pub samples: Vec<Value>,
    pub witnesses: BTreeMap<String, u64>,
    pub required_witnesses: Vec<String>,
    pub violations: Vec<Violation>,
    seen_sigs: BTreeMap<String, u64>,
    pub exhaustive: bool,
    pub caps_hit: Vec<String>,
    pub bounds: Value,
    pub notes: Vec<String>,
    pub machinery_errors: Vec<String>,
}

impl Report {
    pub fn new(property: &str, scenario: &str, tier: &str) -> Self {
        Report {
            property: property.into(),
            scenario: scenario.into(),
            tier: tier.into(),
            start: Instant::now(),
            evaluations: 0,
            states: 0,
            transitions: 0,
            validated_against_impl: 0,
            outcomes: BTreeSet::new(),
            nontrivial: BTreeSet::new(),
            samples: Vec::new(),
            witnesses: BTreeMap::new(),
            required_witnesses: Vec::new(),
            violations: Vec::new(),
            seen_sigs: BTreeMap::new(),
            exhaustive: true,
            caps_hit: Vec::new(),
            bounds: json!({}),
            notes: Vec::new(),
            machinery_errors: Vec::new(),
        }
    }

    pub fn witness(&mut self, name: &str) {
        *self.witnesses.entry(name.into()).or_insert(0) += 1;
    }

    pub fn witness_n(&mut self, name: &str, n: u64) {
        *self.witnesses.entry(name.into()).or_insert(0) += n;
    }

    pub fn require(&mut self, names: &[&str]) {
        for n in names {
            self.required_witnesses.push((*n).into());
            self.witnesses.entry((*n).into()).or_insert(0);
        }
    }

    pub fn sample(&mut self, v: Value) {
        if self.samples.len() < 6 {
            self.samples.push(v);
        }
    }

    /// Record a violation; only the first (shortest, because alphabets are ordered simplest
    /// first) trace per signature is kept, the rest are counted.
    pub fn violation(&mut self, signature: &str, detail: String, replay: Value) {
        let c = self.seen_sigs.entry(signature.to_string()).or_insert(0);
        *c += 1;
        if *c == 1 {
            self.violations.push(Violation {
                property: self.property.clone(),
                signature: signature.to_string(),
                detail,
                replay,
            });
        }
    }

    /// Takes back the violation pushed last (its re-execution diverged). Its signature is forgotten as
    /// well, so that another case showing the same signature is recorded and confirmed on its own.
    pub fn retract_last(&mut self) -> Violation {
        let v = self.violations.pop().expect("a violation was just pushed");
        let _ = self.seen_sigs.remove(&v.signature);
        v
    }

    /// Same as `violation`, for a scenario that carries an oracle of another property too.
    pub fn violation_for(&mut self, property: &str, signature: &str, detail: String, replay: Value) {
        let before = self.violations.len();
        self.violation(signature, detail, replay);
        if self.violations.len() > before {
            self.violations.last_mut().expect("pushed").property = property.to_string();
        }
    }

    pub fn has_sig(&self, signature: &str) -> bool {
        self.seen_sigs.contains_key(signature)
    }

    pub fn cap(&mut self, what: &str) {
        self.exhaustive = false;
        self.caps_hit.push(what.into());
    }

    pub fn to_json(&self) -> Value {
        let missing: Vec<&String> = self
            .required_witnesses
            .iter()
            .filter(|w| self.witnesses.get(*w).copied().unwrap_or(0) == 0)
            .collect();
        json!({
            "property": self.property,
            "scenario": self.scenario,
            "tier": self.tier,
            "wall_s": self.start.elapsed().as_secs_f64(),
            "evaluations": self.evaluations,
            "states": self.states,
            "transitions": self.transitions,
            "traces_validated_against_impl": self.validated_against_impl,
            "distinct_outcomes": self.outcomes.len(),
            "distinct_nontrivial": self.nontrivial.len(),
            "samples": self.samples,
            "witnesses": self.witnesses,
            "missing_witnesses": missing,
            "violations": self.violations.iter().map(|v| json!({
                "property": v.property,
                "signature": v.signature,
                "detail": v.detail,
                "count": self.seen_sigs.get(&v.signature).copied().unwrap_or(1),
                "replay": v.replay,
            })).collect::<Vec<_>>(),
            "exhaustive": self.exhaustive,
            "caps_hit": self.caps_hit,
            "bounds": self.bounds,
            "notes": self.notes,
            "machinery_errors": self.machinery_errors,
        })
    }
}
