//! C27 – io_uring completions reach the call that submitted them (feature `io_uring`).
//! One synchronous event loop whose hooked calls go through the REAL io_uring instance of the loop;
//! one or two coroutines run short programs of hooked calls over a handful of descriptors with
//! distinct byte streams; a driver feeds descriptors and lets virtual time pass between loop turns.
//! Every (programs, driver sequence) combination up to the bounds is executed.
//! Oracle: every call returns what ITS OWN submission must yield under a per-descriptor stream
//! model (next bytes of that descriptor in order / 4 for a write / 0 at end of stream / -1 with the
//! matching errno for a failing completion / -1 for a timed-out wait), no fed byte vanishes, and the
//! buffer of a call that has returned is never written afterwards.
#![cfg(feature = "io_uring")]
use crate::explore::{sweep, Budget};
use crate::report::Report;
use crate::runner::{ChildResult, Emitter, RunCfg};
use open_coroutine_core::coroutine::suspender::Suspender;
use open_coroutine_core::net::verif_facade::SyncLoop;
use open_coroutine_core::scheduler::SchedulableCoroutine;
use open_coroutine_core::syscall as sc;
use serde_json::{json, Value};
use std::cell::RefCell;
use std::collections::BTreeMap;
use std::hash::{DefaultHasher, Hash, Hasher};
use std::time::{Duration, Instant};

const T0: u64 = 1_700_000_000_000_000_000;
/// slots: A, B plain data sockets; T data socket with SO_RCVTIMEO = 1 s; P socket whose peer is closed
const SL: [&str; 4] = ["A", "B", "T", "P"];
const CANARY: u8 = 0xEE;

#[derive(Clone, Copy, Debug, PartialEq, Eq, Hash)]
pub enum Step {
    Read(usize),
    Write(usize),
    /// read on a descriptor number that is not open: the completion is -EBADF
    ReadBad,
    /// send(MSG_NOSIGNAL) to the socket whose peer is gone: the completion is -EPIPE
    SendClosed,
    /// calls of the plain (no timeout) io_uring family:
    /// fsync on a socket: -EINVAL
    FsyncSock,
    /// shutdown on a descriptor number that is not open: -EBADF
    ShutdownBad,
    /// mkdirat of a directory that exists: -EEXIST
    MkdirExists,
    /// socket(AF_UNIX, SOCK_STREAM): a new descriptor
    Socket,
    /// sendto (no address) of 4 bytes: goes through the zero-copy send, which posts TWO completions
    Sendto(usize),
    /// the same on a TCP connection whose peer does not read (its receive buffer is full, a backlog sits
    /// in the send queue): the send is queued at once, its buffer-release notification only comes when
    /// the peer drains - i.e. possibly while the sender's NEXT call is in flight
    SendtoTcp,
}

#[derive(Clone, Copy, Debug, PartialEq, Eq, Hash)]
pub enum Ev {
    /// the peer of the TCP connection reads everything that is waiting for it
    DrainTcp,
    Feed(usize),
    /// two seconds of virtual time pass (the timed socket's limit is one second)
    Idle,
}

impl Step {
    fn to_s(self) -> String {
        match self {
            Step::Read(s) => format!("read({})", SL[s]),
            Step::Write(s) => format!("write({})", SL[s]),
            Step::ReadBad => "read(unopened descriptor)".into(),
            Step::SendClosed => "send(P,MSG_NOSIGNAL)".into(),
            Step::FsyncSock => "fsync(A)".into(),
            Step::ShutdownBad => "shutdown(unopened descriptor)".into(),
            Step::MkdirExists => "mkdirat(/tmp)".into(),
            Step::Socket => "socket()".into(),
            Step::Sendto(s) => format!("sendto({})", SL[s]),
            Step::SendtoTcp => "sendto(tcp connection with an unread backlog)".into(),
        }
    }
    fn from_s(s: &str) -> Option<Step> {
        let slot = |x: &str| SL.iter().position(|n| *n == x);
        match s {
            "read(unopened descriptor)" => return Some(Step::ReadBad),
            "send(P,MSG_NOSIGNAL)" => return Some(Step::SendClosed),
            "fsync(A)" => return Some(Step::FsyncSock),
            "shutdown(unopened descriptor)" => return Some(Step::ShutdownBad),
            "mkdirat(/tmp)" => return Some(Step::MkdirExists),
            "socket()" => return Some(Step::Socket),
            "sendto(tcp connection with an unread backlog)" => return Some(Step::SendtoTcp),
            _ => {}
        }
        if let Some(r) = s.strip_prefix("read(") {
            return Some(Step::Read(slot(r.trim_end_matches(')'))?));
        }
        if let Some(r) = s.strip_prefix("write(") {
            return Some(Step::Write(slot(r.trim_end_matches(')'))?));
        }
        if let Some(r) = s.strip_prefix("sendto(") {
            return Some(Step::Sendto(slot(r.trim_end_matches(')'))?));
        }
        None
    }
}

impl Ev {
    fn to_s(self) -> String {
        match self {
            Ev::DrainTcp => "tcp-peer-drains".into(),
            Ev::Feed(s) => format!("feed({})", SL[s]),
            Ev::Idle => "let-2s-pass".into(),
        }
    }
    fn from_s(s: &str) -> Option<Ev> {
        if s == "let-2s-pass" {
            return Some(Ev::Idle);
        }
        if s == "tcp-peer-drains" {
            return Some(Ev::DrainTcp);
        }
        let r = s.strip_prefix("feed(")?.trim_end_matches(')');
        Some(Ev::Feed(SL.iter().position(|n| *n == r)?))
    }
}

#[derive(Clone, Debug, Hash)]
pub struct Case {
    progs: Vec<Vec<Step>>,
    evs: Vec<Ev>,
}

impl Case {
    fn to_json(&self) -> Value {
        json!({"coroutines": self.progs.iter().map(|p| p.iter().map(|s| s.to_s()).collect::<Vec<_>>()).collect::<Vec<_>>(), "driver": self.evs.iter().map(|e| e.to_s()).collect::<Vec<_>>()})
    }
    fn from_json(v: &Value) -> Option<Case> {
        Some(Case {
            progs: v.get("coroutines")?.as_array()?.iter().map(|p| p.as_array()?.iter().map(|s| s.as_str().and_then(Step::from_s)).collect::<Option<Vec<_>>>()).collect::<Option<Vec<_>>>()?,
            evs: v.get("driver")?.as_array()?.iter().map(|e| e.as_str().and_then(Ev::from_s)).collect::<Option<Vec<_>>>()?,
        })
    }
    fn digest(&self) -> u64 {
        let mut h = DefaultHasher::new();
        self.hash(&mut h);
        h.finish()
    }
}

struct CallRec {
    co: usize,
    step: Step,
    start_seq: u64,
    end_seq: u64,
    ret: isize,
    errno: i32,
    /// the caller's buffer (kept alive until the end of the case), canary-filled before a read
    buf: Box<[u8; 8]>,
}

#[derive(Default)]
struct St {
    seq: u64,
    cur: Vec<Option<(Step, u64)>>,
    calls: Vec<CallRec>,
    finished: Vec<bool>,
}

thread_local! {
    static ST: RefCell<St> = RefCell::new(St::default());
}

fn tick() -> u64 {
    ST.with(|s| {
        let mut s = s.borrow_mut();
        s.seq += 1;
        s.seq
    })
}

unsafe fn place(fd: i32, num: i32) {
    let a = libc::fcntl(fd, libc::F_DUPFD, 5000);
    assert!(a >= 0);
    libc::close(fd);
    assert_eq!(num, libc::dup2(a, num));
    libc::close(a);
}

/// the byte the k-th fed byte of slot s carries
fn fed_byte(s: usize, k: usize) -> u8 {
    (((s + 1) << 5) | (k % 32)) as u8
}

/// the bytes coroutine j writes in its i-th call
fn out_bytes(j: usize, i: usize) -> [u8; 4] {
    let b = (0x80 | (j << 5) | ((i % 8) << 2)) as u8;
    [b, b + 1, b + 2, b + 3]
}

pub struct Viol {
    clause: String,
    class: String,
    detail: String,
}

pub fn run_case(c: &Case) -> (Vec<Viol>, BTreeMap<String, u64>) {
    let dg = c.digest();
    let base = 400 + 8 * ((dg % 300) as i32);
    let fds: [i32; 4] = [base, base + 1, base + 2, base + 3];
    let peers: [i32; 4] = [base + 4, base + 5, base + 6, base + 7];
    let bad_fd = base + 7; // the peer of P is closed right away: this number stays unopened
    open_coroutine_core::verif::clock_set(T0);
    unsafe {
        for s in 0..4 {
            let mut sv = [0; 2];
            assert_eq!(0, libc::socketpair(libc::AF_UNIX, libc::SOCK_STREAM, 0, sv.as_mut_ptr()));
            place(sv[0], fds[s]);
            place(sv[1], peers[s]);
            let fl = libc::fcntl(peers[s], libc::F_GETFL);
            libc::fcntl(peers[s], libc::F_SETFL, fl | libc::O_NONBLOCK);
        }
        let tv = libc::timeval { tv_sec: 1, tv_usec: 0 };
        assert_eq!(0, libc::setsockopt(fds[2], libc::SOL_SOCKET, libc::SO_RCVTIMEO, std::ptr::from_ref(&tv).cast(), size_of::<libc::timeval>() as u32));
        libc::close(peers[3]);
    }
    // a TCP connection over loopback for the delayed-notification step (only when a program wants it)
    let (mut tcp_fd, mut tcp_peer) = (-1, -1);
    if c.progs.iter().flatten().any(|x| *x == Step::SendtoTcp) {
        unsafe {
            let l = libc::socket(libc::AF_INET, libc::SOCK_STREAM, 0);
            let small: libc::c_int = 2048;
            libc::setsockopt(l, libc::SOL_SOCKET, libc::SO_RCVBUF, std::ptr::from_ref(&small).cast(), 4);
            let mut addr: libc::sockaddr_in = std::mem::zeroed();
            addr.sin_family = libc::AF_INET as u16;
            addr.sin_addr.s_addr = u32::from_be_bytes([127, 0, 0, 1]).to_be();
            assert_eq!(0, libc::bind(l, std::ptr::from_ref(&addr).cast(), size_of::<libc::sockaddr_in>() as u32));
            assert_eq!(0, libc::listen(l, 1));
            let mut len = size_of::<libc::sockaddr_in>() as u32;
            assert_eq!(0, libc::getsockname(l, std::ptr::from_mut(&mut addr).cast(), &mut len));
            tcp_fd = libc::socket(libc::AF_INET, libc::SOCK_STREAM, 0);
            let big: libc::c_int = 512 * 1024;
            libc::setsockopt(tcp_fd, libc::SOL_SOCKET, libc::SO_SNDBUF, std::ptr::from_ref(&big).cast(), 4);
            assert_eq!(0, libc::connect(tcp_fd, std::ptr::from_ref(&addr).cast(), size_of::<libc::sockaddr_in>() as u32));
            tcp_peer = libc::accept(l, std::ptr::null_mut(), std::ptr::null_mut());
            assert!(tcp_peer >= 0);
            libc::close(l);
            // the backlog the peer does not read
            let junk = [0x33u8; 4096];
            let mut queued = 0usize;
            while queued < 96 * 1024 {
                let r = libc::send(tcp_fd, junk.as_ptr().cast(), junk.len(), libc::MSG_DONTWAIT);
                if r <= 0 {
                    break;
                }
                queued += r as usize;
            }
            let fl = libc::fcntl(tcp_peer, libc::F_GETFL);
            libc::fcntl(tcp_peer, libc::F_SETFL, fl | libc::O_NONBLOCK);
        }
    }
    let n = c.progs.len();
    ST.with(|s| *s.borrow_mut() = St { cur: vec![None; n], finished: vec![false; n], ..St::default() });
    let mut lp = SyncLoop::new(&format!("c27-loop-{dg:x}"), 128 * 1024, 0, 4, 0).expect("loop");
    lp.enter();
    for (j, prog) in c.progs.iter().enumerate() {
        let prog = prog.clone();
        let co: SchedulableCoroutine<'static> = open_coroutine_core::co!(
            Some(format!("c27-{dg:x}-{j}")),
            move |_: &Suspender<(), ()>, ()| {
                for (i, step) in prog.iter().enumerate() {
                    let mut buf = Box::new([CANARY; 8]);
                    let q = tick();
                    ST.with(|s| s.borrow_mut().cur[j] = Some((*step, q)));
                    sc::set_errno(0);
                    let r = match *step {
                        Step::Read(s) => sc::read(None, fds[s], buf.as_mut_ptr().cast(), 4),
                        Step::Write(s) => {
                            buf[..4].copy_from_slice(&out_bytes(j, i));
                            sc::write(None, fds[s], buf.as_ptr().cast(), 4)
                        }
                        Step::ReadBad => sc::read(None, bad_fd, buf.as_mut_ptr().cast(), 4),
                        Step::SendClosed => {
                            buf[..4].copy_from_slice(&out_bytes(j, i));
                            sc::send(None, fds[3], buf.as_ptr().cast(), 4, libc::MSG_NOSIGNAL)
                        }
                        Step::Sendto(s) => {
                            buf[..4].copy_from_slice(&out_bytes(j, i));
                            sc::sendto(None, fds[s], buf.as_ptr().cast(), 4, libc::MSG_NOSIGNAL, std::ptr::null(), 0)
                        }
                        Step::SendtoTcp => {
                            buf[..4].copy_from_slice(&out_bytes(j, i));
                            sc::sendto(None, tcp_fd, buf.as_ptr().cast(), 4, libc::MSG_NOSIGNAL, std::ptr::null(), 0)
                        }
                        Step::FsyncSock => sc::fsync(None, fds[0]) as isize,
                        Step::ShutdownBad => sc::shutdown(None, bad_fd, libc::SHUT_RDWR) as isize,
                        Step::MkdirExists => sc::mkdirat(None, libc::AT_FDCWD, c"/tmp".as_ptr(), 0o755) as isize,
                        Step::Socket => {
                            let fd = sc::socket(None, libc::AF_UNIX, libc::SOCK_STREAM, 0);
                            if fd >= 0 {
                                unsafe { libc::close(fd) };
                            }
                            isize::from(fd >= 0) - isize::from(fd < 0)
                        }
                    };
                    let errno = std::io::Error::last_os_error().raw_os_error().unwrap_or(0);
                    let q2 = tick();
                    ST.with(|s| {
                        let mut s = s.borrow_mut();
                        s.cur[j] = None;
                        s.calls.push(CallRec { co: j, step: *step, start_seq: q, end_seq: q2, ret: r, errno, buf });
                    });
                }
                ST.with(|s| s.borrow_mut().finished[j] = true);
                Some(j)
            },
            Some(128 * 1024)
        )
        .expect("coroutine");
        let _ = lp.pool().submit_raw_co(co).expect("submit");
    }
    // model state kept by the driver
    let mut fed: [usize; 4] = [0; 4];
    let mut feeds: Vec<(usize, u64)> = Vec::new(); // (slot, seq) per fed chunk of 4 bytes
    let mut idles: Vec<u64> = Vec::new();
    // is coroutine j's current call expected to return now?
    let expect_return = |fed: &[usize; 4], idles: &Vec<u64>| -> bool {
        ST.with(|s| {
            let s = s.borrow();
            (0..n).any(|j| match s.cur[j] {
                None => !s.finished[j],
                Some((Step::Read(sl), q)) => {
                    if sl == 3 {
                        return true;
                    }
                    let consumed: usize = s.calls.iter().filter(|c| c.step == Step::Read(sl) && c.ret > 0).map(|c| c.ret as usize).sum();
                    fed[sl] > consumed || (sl == 2 && idles.iter().any(|i| *i > q))
                }
                Some(_) => true,
            })
        })
    };
    let settle = |lp: &mut SyncLoop, fed: &[usize; 4], idles: &Vec<u64>| {
        let t = Instant::now();
        let mut quiet = 0;
        loop {
            let before = ST.with(|s| s.borrow().seq);
            // virtual time only moves with the driver's let-2s-pass event: undo the turn's advance
            let vnow = open_coroutine_core::common::now();
            let _ = lp.wait_event(Some(Duration::from_millis(3)));
            open_coroutine_core::verif::clock_set(vnow);
            let moved = ST.with(|s| s.borrow().seq) != before;
            if moved {
                quiet = 0;
                continue;
            }
            quiet += 1;
            if !expect_return(fed, idles) && quiet >= 3 {
                return true;
            }
            if t.elapsed() > Duration::from_millis(10_000) {
                return false;
            }
            std::thread::sleep(Duration::from_micros(50));
        }
    };
    let mut stuck = !settle(&mut lp, &fed, &idles);
    for ev in &c.evs {
        if stuck {
            break;
        }
        match *ev {
            Ev::Feed(s) => {
                let chunk: Vec<u8> = (0..4).map(|k| fed_byte(s, fed[s] + k)).collect();
                assert_eq!(4, unsafe { libc::write(peers[s], chunk.as_ptr().cast(), 4) });
                fed[s] += 4;
                feeds.push((s, tick()));
            }
            Ev::Idle => {
                let _ = open_coroutine_core::verif::clock_advance(Duration::from_secs(2));
                idles.push(tick());
            }
            Ev::DrainTcp => {
                // read until nothing has arrived for a while (the backlog trickles in as the window opens)
                let mut b = [0u8; 8192];
                let t = Instant::now();
                let mut last = Instant::now();
                while t.elapsed() < Duration::from_millis(300) && last.elapsed() < Duration::from_millis(20) {
                    let r = unsafe { libc::recv(tcp_peer, b.as_mut_ptr().cast(), b.len(), 0) };
                    if r > 0 {
                        last = Instant::now();
                    } else {
                        std::thread::sleep(Duration::from_micros(200));
                    }
                }
                let _ = tick();
            }
        }
        stuck = !settle(&mut lp, &fed, &idles);
    }
    let st = ST.with(|s| std::mem::take(&mut *s.borrow_mut()));
    // what is still unread in each data socket, what the peers received
    let mut leftover: [Vec<u8>; 3] = [vec![], vec![], vec![]];
    let mut received: [Vec<u8>; 2] = [vec![], vec![]];
    unsafe {
        for s in 0..3 {
            let mut b = [0u8; 256];
            loop {
                let r = libc::recv(fds[s], b.as_mut_ptr().cast(), b.len(), libc::MSG_DONTWAIT);
                if r <= 0 {
                    break;
                }
                leftover[s].extend_from_slice(&b[..r as usize]);
            }
        }
        for s in 0..2 {
            let mut b = [0u8; 256];
            loop {
                let r = libc::recv(peers[s], b.as_mut_ptr().cast(), b.len(), libc::MSG_DONTWAIT);
                if r <= 0 {
                    break;
                }
                received[s].extend_from_slice(&b[..r as usize]);
            }
        }
        for s in 0..4 {
            libc::close(fds[s]);
        }
        if tcp_fd >= 0 {
            libc::close(tcp_fd);
            libc::close(tcp_peer);
        }
        for s in 0..3 {
            libc::close(peers[s]);
        }
    }
    let ep = lp.selector_fd();
    lp.leave();
    lp.forget();
    unsafe { libc::close(ep) };

    // ------------------------------------------------------------------ judge
    let mut viols: Vec<Viol> = Vec::new();
    let mut wit: BTreeMap<String, u64> = BTreeMap::new();
    let mut w = |k: &str, n: u64| *wit.entry(k.to_string()).or_insert(0) += n;
    let others_pending = |call: &CallRec| -> bool { st.calls.iter().any(|o| o.co != call.co && o.start_seq < call.end_seq && o.end_seq > call.start_seq) || st.cur.iter().enumerate().any(|(j, c)| j != call.co && c.is_some_and(|(_, q)| q < call.end_seq)) };
    let mut delivered: [usize; 3] = [0; 3];
    let mut written: [Vec<u8>; 2] = [vec![], vec![]];
    let mut per_co_idx: Vec<usize> = vec![0; n];
    let mut calls: Vec<&CallRec> = st.calls.iter().collect();
    calls.sort_by_key(|c| c.end_seq);
    for call in &calls {
        let i = {
            let k = per_co_idx[call.co];
            per_co_idx[call.co] += 1;
            k
        };
        let ctx = if others_pending(call) { "another-call-in-flight" } else { "only-call-in-flight" };
        let mut bad = |clause: &str, class: String, detail: String| viols.push(Viol { clause: clause.into(), class, detail: format!("coroutine {} call #{i} {}: {detail}", call.co, call.step.to_s()) });
        match call.step {
            Step::Read(3) => {
                if call.ret != 0 {
                    bad("own-result", format!("end-of-stream:{ctx}"), format!("returned {} (errno {}), its own completion is 0 (peer closed)", call.ret, call.errno));
                }
            }
            Step::Read(s) => {
                let fed_before: usize = feeds.iter().filter(|(fs, q)| *fs == s && *q < call.end_seq).count() * 4;
                let avail = fed_before.saturating_sub(delivered[s]);
                if call.ret > 0 {
                    let k = call.ret as usize;
                    let want: Vec<u8> = (0..k.min(8)).map(|x| fed_byte(s, delivered[s] + x)).collect();
                    if k > 4 || k > avail || call.buf[..k.min(8)] != want[..] {
                        bad("own-result", format!("data:{ctx}"), format!("returned {k} with bytes {:02x?}; the next bytes of its own descriptor are {:02x?} ({avail} available)", &call.buf[..k.min(8)], want));
                    } else {
                        w("reads_that_got_their_own_bytes", 1);
                    }
                    if call.buf[k.min(8)..] != [CANARY; 8][k.min(8)..] {
                        bad("buffer-written-beyond-the-result", ctx.into(), format!("buffer after the call {:02x?}", call.buf));
                    }
                    delivered[s] += k;
                } else if call.ret == -1 && s == 2 && idles.iter().any(|q| *q > call.start_seq && *q < call.end_seq) && avail == 0 {
                    if call.errno != libc::ETIMEDOUT && call.errno != libc::EAGAIN {
                        bad("own-result", format!("timeout-errno:{ctx}"), format!("timed out with errno {}", call.errno));
                    }
                    w("reads_that_timed_out", 1);
                    if *call.buf != [CANARY; 8] {
                        bad("finished-call-buffer-untouched", "timed-out-read".into(), format!("the buffer of the timed-out call holds {:02x?} at the end of the run: a later completion wrote into it", call.buf));
                    }
                } else {
                    bad("own-result", format!("data:{ctx}"), format!("returned {} (errno {}) with {avail} byte(s) of its own descriptor available", call.ret, call.errno));
                }
            }
            Step::Write(s) | Step::Sendto(s) => {
                // the zero-copy send behind sendto is refused for AF_UNIX sockets (-EOPNOTSUPP): that is
                // the call's own completion, reported faithfully; what matters here is that neither of
                // its two completions reaches anybody else
                let refused = matches!(call.step, Step::Sendto(_)) && call.ret == -1 && call.errno == libc::EOPNOTSUPP;
                if refused {
                    w("zero_copy_sends_refused_by_the_kernel", 1);
                } else {
                    if call.ret != 4 {
                        bad("own-result", format!("{}:{ctx}", if matches!(call.step, Step::Write(_)) { "write" } else { "sendto" }), format!("returned {} (errno {}), its own completion is 4", call.ret, call.errno));
                    }
                    written[s].extend_from_slice(&call.buf[..4]);
                }
            }
            Step::ReadBad => {
                if call.ret != -1 || call.errno != libc::EBADF {
                    bad("negative-completion-is-minus-one-with-errno", format!("EBADF:{ctx}"), format!("returned {} with errno {}", call.ret, call.errno));
                } else {
                    w("error_completions_checked", 1);
                }
                if *call.buf != [CANARY; 8] {
                    bad("finished-call-buffer-untouched", "failed-read".into(), format!("the buffer of the failed call holds {:02x?}", call.buf));
                }
            }
            Step::SendClosed => {
                if call.ret != -1 || call.errno != libc::EPIPE {
                    bad("negative-completion-is-minus-one-with-errno", format!("EPIPE:{ctx}"), format!("returned {} with errno {}", call.ret, call.errno));
                } else {
                    w("error_completions_checked", 1);
                }
            }
            Step::FsyncSock | Step::ShutdownBad | Step::MkdirExists => {
                let (want, name) = match call.step {
                    Step::FsyncSock => (libc::EINVAL, "EINVAL"),
                    Step::ShutdownBad => (libc::EBADF, "EBADF"),
                    _ => (libc::EEXIST, "EEXIST"),
                };
                if call.ret != -1 || call.errno != want {
                    bad("negative-completion-is-minus-one-with-errno", format!("{name}:plain-family:{ctx}"), format!("returned {} with errno {}, its own completion is -{name}", call.ret, call.errno));
                } else {
                    w("error_completions_checked", 1);
                }
            }
            Step::SendtoTcp => {
                if call.ret != 4 {
                    bad("own-result", format!("sendto-tcp:{ctx}"), format!("returned {} (errno {}), its own completion is 4", call.ret, call.errno));
                } else {
                    w("zero_copy_sends_queued_on_tcp", 1);
                }
            }
            Step::Socket => {
                if call.ret != 1 {
                    bad("own-result", format!("socket:{ctx}"), format!("did not return a descriptor (errno {})", call.errno));
                }
            }
        }
    }
    // every fed byte was delivered to a call or is still in the socket, in order
    for s in 0..3 {
        let want: Vec<u8> = (delivered[s]..fed[s]).map(|k| fed_byte(s, k)).collect();
        if leftover[s] != want && viols.is_empty() {
            let timed_out_before = st.calls.iter().any(|c| c.step == Step::Read(s) && c.ret == -1);
            viols.push(Viol { clause: "no-fed-byte-vanishes".into(), class: if timed_out_before { "after-a-timed-out-read" } else { "plain" }.into(),
                detail: format!("descriptor {}: {} byte(s) fed, {} delivered to calls, the socket still holds {:02x?}, expected {:02x?}: a completion consumed bytes that no call received", SL[s], fed[s], delivered[s], leftover[s], want) });
        }
    }
    for s in 0..2 {
        if received[s] != written[s] && viols.is_empty() {
            viols.push(Viol { clause: "written-bytes-reach-the-peer".into(), class: "plain".into(), detail: format!("descriptor {}: calls wrote {:02x?}, the peer received {:02x?}", SL[s], written[s], received[s]) });
        }
    }
    // calls that should have returned
    if stuck || expect_return_static(&st, &fed, &idles, n) {
        let pending: Vec<String> = st.cur.iter().enumerate().filter_map(|(j, c)| c.map(|(x, _)| format!("coroutine {j} in {}", x.to_s()))).collect();
        if viols.is_empty() {
            let after_timeout = st.calls.iter().any(|c| c.ret == -1 && matches!(c.step, Step::Read(2)));
            viols.push(Viol { clause: "call-returns-when-its-completion-is-due".into(), class: if after_timeout { "after-a-timed-out-read" } else { "plain" }.into(), detail: format!("still pending at the end of the run: {pending:?}") });
        }
    }
    if n > 1 {
        w("cases_with_two_coroutines", 1);
    }
    w("calls_completed", st.calls.len() as u64);
    (viols, wit)
}

fn expect_return_static(st: &St, fed: &[usize; 4], idles: &[u64], n: usize) -> bool {
    (0..n).any(|j| match st.cur[j] {
        None => !st.finished[j],
        Some((Step::Read(sl), q)) => {
            if sl == 3 {
                return true;
            }
            let consumed: usize = st.calls.iter().filter(|c| c.step == Step::Read(sl) && c.ret > 0).map(|c| c.ret as usize).sum();
            fed[sl] > consumed || (sl == 2 && idles.iter().any(|i| *i > q))
        }
        Some(_) => true,
    })
}

fn seqs<T: Copy>(alpha: &[T], min: usize, max: usize) -> Vec<Vec<T>> {
    let mut out: Vec<Vec<T>> = Vec::new();
    let mut level: Vec<Vec<T>> = vec![vec![]];
    if min == 0 {
        out.push(vec![]);
    }
    for d in 1..=max {
        let mut next = Vec::new();
        for s in &level {
            for a in alpha {
                let mut t = s.clone();
                t.push(*a);
                next.push(t);
            }
        }
        if d >= min {
            out.extend(next.iter().cloned());
        }
        level = next;
    }
    out
}

pub fn bounds(tier: &str) -> (usize, usize, usize) {
    if tier == "thorough" { (3, 2, 3) } else { (2, 1, 2) }
}

pub fn cases(tier: &str) -> Vec<Case> {
    let (l0, l1, e) = bounds(tier);
    let steps = [Step::Read(0), Step::Read(1), Step::Read(2), Step::Read(3), Step::Sendto(0), Step::SendtoTcp, Step::Write(0), Step::Write(1), Step::ReadBad, Step::SendClosed, Step::FsyncSock, Step::ShutdownBad, Step::MkdirExists, Step::Socket];
    // the second coroutine: something to be in flight next to the first one's calls
    let steps1: &[Step] = if tier == "thorough" { &[Step::Read(1), Step::Write(1), Step::ReadBad, Step::FsyncSock, Step::Read(2)] } else { &[Step::Read(1), Step::ReadBad, Step::Read(2)] };
    let p0 = seqs(&steps, 1, l0);
    let mut p1: Vec<Vec<Step>> = vec![vec![]];
    p1.extend(seqs(steps1, 1, l1));
    let waits = |x: &Step| matches!(x, Step::Read(_) | Step::Sendto(_) | Step::SendtoTcp);
    let mut v = Vec::new();
    for a in &p0 {
        for b in &p1 {
            // quick tier: a second coroutine only next to a program in which some call stays in flight
            if tier != "thorough" && !b.is_empty() && !a.iter().any(waits) {
                continue;
            }
            let progs: Vec<Vec<Step>> = if b.is_empty() { vec![a.clone()] } else { vec![a.clone(), b.clone()] };
            let mut alpha: Vec<Ev> = Vec::new();
            for s in 0..3 {
                if progs.iter().flatten().any(|x| *x == Step::Read(s)) {
                    alpha.push(Ev::Feed(s));
                }
            }
            if progs.iter().flatten().any(|x| *x == Step::Read(2)) {
                alpha.push(Ev::Idle);
            }
            if progs.iter().flatten().any(|x| *x == Step::SendtoTcp) {
                alpha.push(Ev::DrainTcp);
            }
            // two coroutines: one driver event less
            let e = if progs.len() > 1 { e.saturating_sub(1) } else { e };
            for evs in seqs(&alpha, 0, e) {
                v.push(Case { progs: progs.clone(), evs });
            }
        }
    }
    v
}

fn exec(c: &Case, em: &mut Emitter) {
    if std::env::var_os("SEQX_VERBOSE").is_none() {
        std::panic::set_hook(Box::new(|_| {}));
    }
    open_coroutine_core::verif::clock_enable(T0);
    let (viols, wit) = run_case(c);
    em.emit(json!({"t":"v","viol": viols.iter().map(|v| json!({"clause": v.clause, "class": v.class, "detail": v.detail})).collect::<Vec<_>>(), "wit": wit}));
}

pub fn run(tier: &str, rep: &mut Report) {
    let cs = cases(tier);
    let (l0, l1, e) = bounds(tier);
    rep.bounds = json!({"descriptors": {"A,B": "stream sockets", "T": "stream socket with SO_RCVTIMEO = 1 s", "P": "stream socket whose peer is closed"},
        "program_steps": ["read(A|B|T|P) of 4 bytes", "write(A|B) of 4 bytes", "read(unopened descriptor) -> -EBADF", "send(P, MSG_NOSIGNAL) -> -EPIPE", "fsync(A) -> -EINVAL", "shutdown(unopened descriptor) -> -EBADF", "mkdirat(/tmp) -> -EEXIST", "socket() -> a descriptor", "sendto(A) of 4 bytes (zero-copy send: two completions)", "sendto on a TCP connection with an unread backlog (the notification comes when the peer drains)"],
        "second_coroutine_steps": if tier == "thorough" { json!(["read(B)", "write(B)", "read(unopened descriptor)", "fsync(A)", "read(T)"]) } else { json!(["read(B)", "read(unopened descriptor)", "read(T)", "(only next to a first program with a read or a zero-copy send in it)"]) },
        "steps_of_coroutine_0": l0, "steps_of_coroutine_1": l1, "driver_events": ["feed(slot): 4 more bytes", "let-2s-pass", "tcp-peer-drains"], "driver_sequence_length": format!("0..={e} (one coroutine), 0..={} (two)", e.saturating_sub(1)), "cases": cs.len(),
        "note": "completions arrive from the kernel's SQ-poll thread: after every driver event the loop is turned until every call whose completion is due has returned (cap 10 s of real time per event)"});
    rep.require(&["reads_that_got_their_own_bytes", "error_completions_checked", "cases_with_two_coroutines"]);
    for c in cs.iter().step_by((cs.len() / 4).max(1)).take(4) {
        rep.sample(c.to_json());
    }
    // one case per child (the ring and its kernel poll thread go away with the child) and fewer
    // children than cores, the kernel's SQ-poll threads need some too
    let dflt = RunCfg::default();
    let cfg = RunCfg { hang_after: Duration::from_millis(40_000), parallel: (dflt.parallel / 2).max(1), racy_confirm: 6, ..dflt };
    let budget = Budget::secs(if tier == "thorough" { 2400 } else { 80 });
    // is there an io_uring to talk to at all? (otherwise every case would die in the harness' setup)
    let probe = crate::runner::run_one(&cfg, |em| {
        std::panic::set_hook(Box::new(|_| {}));
        let ok = SyncLoop::new("c27-probe", 128 * 1024, 0, 1, 0).is_ok();
        em.emit(json!({"t":"probe","ok":ok}));
    });
    if !probe.exit.ok() || probe.last("probe").map(|p| p["ok"] == true) != Some(true) {
        rep.machinery_errors.push("uring.own: no event loop with an io_uring instance can be created in this environment (io_uring_setup with SQPOLL failed); C27 cannot be decided here".into());
        return;
    }
    sweep(&cs, 1, rep, &cfg, &budget, exec, |c, res: &ChildResult, rep| {
        let replay = || json!({"engine":"seqx-uring","scenario":"uring.own","case":c.to_json()});
        if !res.exit.ok() {
            // does a coroutine issue another call after a read on the timed socket, with time passing?
            let after_timeout = c.evs.contains(&Ev::Idle) && c.progs.iter().any(|p| p.iter().position(|x| *x == Step::Read(2)).is_some_and(|i| i + 1 < p.len()));
            rep.violation(&format!("uring.own/process-survives/{}:{}", res.exit.describe(), if after_timeout { "a-call-follows-one-that-timed-out" } else { "plain" }), format!("{}: the process {}", c.to_json(), res.exit.describe()), replay());
            return;
        }
        let Some(v) = res.last("v") else {
            rep.machinery_errors.push(format!("uring.own: no verdict record for {}", c.to_json()));
            return;
        };
        let _ = rep.nontrivial.insert(c.digest().to_string());
        for (k, n) in v["wit"].as_object().unwrap() {
            rep.witness_n(k, n.as_u64().unwrap_or(0));
        }
        for x in v["viol"].as_array().unwrap() {
            rep.violation(&format!("uring.own/{}/{}", x["clause"].as_str().unwrap(), x["class"].as_str().unwrap()), format!("{}: {}", c.to_json(), x["detail"].as_str().unwrap()), replay());
        }
    });
    rep.states = rep.evaluations;
    rep.transitions = rep.evaluations;
}

pub fn replay(v: &Value, em: &mut Emitter) -> bool {
    let Some(c) = v.get("case").and_then(Case::from_json) else { return false };
    em.emit(json!({"t":"case","case":c.to_json()}));
    exec(&c, em);
    true
}
