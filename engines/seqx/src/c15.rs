//! C15 – a coroutine blocked in a hooked call does not stall its event loop.
//! Synchronous loop, virtual clock, real epoll. Every multiset of 1..N task kinds (hooked sleeps of
//! several lengths, a hooked read whose peer is written at a chosen virtual instant, a computing
//! task that yields) runs on one loop with enough workers. Because blocking advances the virtual
//! clock, a runtime that ran the sleepers one after the other would show the SUM of the durations;
//! one that blocked the loop thread for real would show real time passing.
use crate::explore::{sweep, Budget};
use crate::report::Report;
use crate::runner::{ChildResult, Emitter, RunCfg};
use open_coroutine_core::common::constants::SLICE;
use open_coroutine_core::common::now;
use open_coroutine_core::net::verif_facade::SyncLoop;
use open_coroutine_core::scheduler::SchedulableSuspender;
use open_coroutine_core::syscall as sc;
use serde_json::{json, Value};
use std::sync::{Arc, Mutex};
use std::time::{Duration, Instant};

const T0: u64 = 1_700_000_000_000_000_000;
const MS: u64 = 1_000_000;
const SLACK: u64 = 3 * 10 * MS + MS;

pub const KINDS: [&str; 9] = ["usleep(1ms)", "usleep(10ms)", "nanosleep(25ms)", "sleep(1s)", "read(peer writes at 15ms)", "compute(5 yields)", "cooperative delay(2s)", "write(one byte to the first reader's socket)", "read(peer writes at 15ms) then sleep(1s)"];

fn dur_of(k: usize) -> u64 {
    [MS, 10 * MS, 25 * MS, 1000 * MS, 15 * MS, 0, 2000 * MS, 0, 1015 * MS][k]
}

#[derive(Clone, Debug)]
pub struct Case {
    tasks: Vec<usize>,
    /// core workers of the loop's pool (idle ones stay alive next to the blocked ones)
    min_size: usize,
}

impl Case {
    fn to_json(&self) -> Value {
        json!({"tasks": self.tasks.iter().map(|k| KINDS[*k]).collect::<Vec<_>>(), "min_size": self.min_size})
    }
    fn from_json(v: &Value) -> Option<Case> {
        Some(Case { tasks: v.get("tasks")?.as_array()?.iter().map(|k| KINDS.iter().position(|x| Some(*x) == k.as_str())).collect::<Option<Vec<_>>>()?, min_size: v.get("min_size").and_then(Value::as_u64).unwrap_or(0) as usize })
    }
}

pub fn exec(c: &Case, em: &mut Emitter) {
    std::panic::set_hook(Box::new(|_| {}));
    open_coroutine_core::verif::clock_enable(T0);
    let n = c.tasks.len();
    let mut lp = SyncLoop::new("c15-loop", 128 * 1024, c.min_size, n + 1 + c.min_size, 0).expect("loop");
    lp.enter();
    if c.min_size > 0 {
        // bring the core workers up first: one yielding task per core worker. (A pool whose ONLY live
        // worker is idle never hands the thread back - nothing else could run anyway; that quirk is
        // not what this scenario is about, so there are always at least two workers alive.)
        let up = Arc::new(std::sync::atomic::AtomicUsize::new(0));
        for k in 0..c.min_size {
            let up = up.clone();
            let _ = lp.pool().submit_task(Some(format!("c15-warm-{k}")), move |_| {
                SchedulableSuspender::current().expect("suspender").suspend();
                let _ = up.fetch_add(1, std::sync::atomic::Ordering::SeqCst);
                Some(0)
            }, None, None);
        }
        for _ in 0..20 {
            if up.load(std::sync::atomic::Ordering::SeqCst) == c.min_size {
                break;
            }
            let _ = lp.wait_event(Some(SLICE));
        }
        open_coroutine_core::verif::clock_set(T0);
    }
    // (start, end, extra) per task
    let out: Arc<Mutex<Vec<Option<(u64, u64, i64)>>>> = Arc::new(Mutex::new(vec![None; n]));
    let mut peers: Vec<(usize, i32)> = Vec::new();
    let mut first_reader_fd = -1;
    for (i, k) in c.tasks.iter().enumerate() {
        let (o, k) = (out.clone(), *k);
        let mut rfd = -1;
        if KINDS[k].starts_with("read") {
            let mut sv = [0; 2];
            assert_eq!(0, unsafe { libc::socketpair(libc::AF_UNIX, libc::SOCK_STREAM, 0, sv.as_mut_ptr()) });
            rfd = sv[0];
            if first_reader_fd < 0 {
                first_reader_fd = rfd;
            }
            peers.push((i, sv[1]));
        }
        if KINDS[k].starts_with("write") {
            // the socket a reader of this case is blocked on (tasks are sorted by kind, readers come
            // first); a socket of its own if the case has no reader
            rfd = first_reader_fd;
            if rfd < 0 {
                let mut sv = [0; 2];
                assert_eq!(0, unsafe { libc::socketpair(libc::AF_UNIX, libc::SOCK_STREAM, 0, sv.as_mut_ptr()) });
                rfd = sv[0];
            }
        }
        let _ = lp
            .pool()
            .submit_task(Some(format!("c15-{i}")), move |_| {
                let t0 = now();
                let mut extra = 0i64;
                match k {
                    0 => { let _ = sc::usleep(None, 1000); }
                    1 => { let _ = sc::usleep(None, 10_000); }
                    2 => {
                        let rq = libc::timespec { tv_sec: 0, tv_nsec: 25_000_000 };
                        let _ = sc::nanosleep(None, &rq, std::ptr::null_mut());
                    }
                    3 => { let _ = sc::sleep(None, 1); }
                    4 | 8 => {
                        let mut b = [0u8; 1];
                        extra = sc::read(None, rfd, b.as_mut_ptr().cast(), 1) as i64;
                        if k == 8 {
                            let _ = sc::sleep(None, 1);
                        }
                    }
                    5 => {
                        for _ in 0..5 {
                            extra += 1;
                            SchedulableSuspender::current().expect("suspender").suspend();
                        }
                    }
                    6 => SchedulableSuspender::current().expect("suspender").delay(Duration::from_secs(2)),
                    _ => {
                        let b = [5u8; 1];
                        extra = sc::write(None, rfd, b.as_ptr().cast(), 1) as i64;
                    }
                }
                o.lock().unwrap()[i] = Some((t0, now(), extra));
                Some(0)
            }, None, None)
            .expect("submit");
    }
    em.emit(json!({"t":"begin"}));
    let nv = || unsafe {
        let mut ru: libc::rusage = std::mem::zeroed();
        libc::getrusage(libc::RUSAGE_THREAD, &mut ru);
        ru.ru_nvcsw
    };
    let nv0 = nv();
    let real = Instant::now();
    let mut turns = 0u64;
    let mut written = false;
    while out.lock().unwrap().iter().any(Option::is_none) && now() < T0 + 3000 * MS && turns < 4000 {
        if !written && now() >= T0 + 15 * MS {
            for (_, fd) in &peers {
                let b = [7u8];
                assert_eq!(1, unsafe { libc::write(*fd, b.as_ptr().cast(), 1) });
            }
            written = true;
        }
        // (turns shorter than the 10 ms wait slice: a readiness event can then arrive while the
        // waiter's slice deadline still lies ahead)
        let _ = lp.wait_event(Some(Duration::from_millis(3)));
        turns += 1;
    }
    let res: Vec<Value> = out.lock().unwrap().iter().map(|o| match o {
        Some((a, b, x)) => json!({"start": a - T0, "end": b - T0, "extra": x}),
        None => json!(null),
    }).collect();
    em.emit(json!({"t":"end","tasks":res,"virtual_ns": now() - T0, "loop_thread_slept_for_real": nv() - nv0 >= 1 && real.elapsed().as_millis() >= 900, "turns": turns}));
    lp.leave();
    lp.forget();
}

pub fn judge(c: &Case, res: &ChildResult, rep: &mut Report) {
    let replay = || json!({"engine":"seqx","scenario":"c15.mix","case":c.to_json()});
    if !res.exit.ok() {
        rep.violation(&format!("c15.mix/process-survives/{}", res.exit.describe()), format!("{}: the process {}", c.to_json(), res.exit.describe()), replay());
        return;
    }
    let Some(e) = res.last("end") else {
        rep.machinery_errors.push("c15: no end record".into());
        return;
    };
    let _ = rep.nontrivial.insert(c.to_json().to_string());
    let tasks = e["tasks"].as_array().unwrap();
    let longest = c.tasks.iter().map(|k| dur_of(*k)).max().unwrap_or(0);
    let sum: u64 = c.tasks.iter().map(|k| dur_of(*k)).sum();
    let mut makespan = 0u64;
    for (i, t) in tasks.iter().enumerate() {
        let kind = KINDS[c.tasks[i]];
        if t.is_null() {
            rep.violation(&format!("c15.mix/every-task-finishes/{}", kind.split('(').next().unwrap()), format!("{}: task {i} ({kind}) had not finished after 3s of virtual time", c.to_json()), replay());
            return;
        }
        let (s, en) = (t["start"].as_u64().unwrap(), t["end"].as_u64().unwrap());
        makespan = makespan.max(en);
        let d = dur_of(c.tasks[i]);
        if kind.starts_with("write") && t["extra"].as_i64() != Some(1) {
            rep.violation("c15.mix/socket-write-returns-one/-", format!("{}: the hooked write returned {}", c.to_json(), t["extra"]), replay());
            return;
        }
        if kind.starts_with("read") {
            if t["extra"].as_i64() != Some(1) {
                rep.violation("c15.mix/socket-wait-returns-the-byte/-", format!("{}: the hooked read returned {}", c.to_json(), t["extra"]), replay());
                return;
            }
        }
        // a sleep never comes back early (a socket wait ends when its peer writes, whenever that is)
        let sleep_part = if kind.contains("then sleep(1s)") { 1000 * MS } else if kind.starts_with("read") { 0 } else { d };
        if sleep_part > 0 && (en - s) < sleep_part {
            rep.violation(&format!("c15.mix/wait-passes-on-the-loops-clock/{}", kind.split('(').next().unwrap()),
                format!("{}: task {i} ({kind}) came back after {}ns of the loop's (virtual) time, before its wait of {d}ns was over: the wait did not go through the event loop", c.to_json(), en - s), replay());
            return;
        }
        if d > 0 && (en - s) > d + SLACK {
            rep.violation(&format!("c15.mix/blocked-task-not-delayed-by-siblings/{}", kind.split('(').next().unwrap()),
                format!("{}: task {i} ({kind}) took {}ns of virtual time (own wait {d}ns, slack {SLACK}ns); the sum of all waits is {sum}ns", c.to_json(), en - s), replay());
            return;
        }
        if kind.starts_with("compute") && c.tasks.iter().any(|k| dur_of(*k) >= 25 * MS) && en > 2 * 10 * MS + MS {
            rep.violation("c15.mix/runnable-sibling-keeps-progressing/-", format!("{}: the computing task finished only at {en}ns although siblings were merely waiting", c.to_json()), replay());
            return;
        }
    }
    if makespan > longest + SLACK {
        rep.violation("c15.mix/makespan-is-max-not-sum/-", format!("{}: all tasks finished after {makespan}ns; the longest single wait is {longest}ns, the sum {sum}ns (slack {SLACK}ns)", c.to_json()), replay());
        return;
    }
    // the loop thread itself must never really block for the waits
    // (a starved machine makes a run slow, but only a thread that really blocks gives up the CPU
    // voluntarily: both together are the observation)
    if e["loop_thread_slept_for_real"] == true && longest >= 1000 * MS {
        rep.violation("c15.mix/loop-thread-not-blocked-for-real/-", format!("{}: the loop thread gave up the CPU voluntarily and about a second of REAL time passed although the virtual clock owned all waiting", c.to_json()), replay());
        return;
    }
    if c.tasks.len() >= 2 && sum > longest + SLACK {
        rep.witness("cases_where_sum_exceeds_max");
    }
    if c.tasks.iter().any(|k| KINDS[*k].starts_with("read")) {
        rep.witness("cases_with_socket_wait");
    }
}

pub fn cases(tier: &str) -> Vec<Case> {
    let maxn = if tier == "thorough" { 4 } else { 3 };
    let mut out = Vec::new();
    fn rec(start: usize, cur: &mut Vec<usize>, maxn: usize, out: &mut Vec<Case>) {
        if !cur.is_empty() {
            out.push(Case { tasks: cur.clone(), min_size: 0 });
            out.push(Case { tasks: cur.clone(), min_size: 2 });
        }
        if cur.len() == maxn {
            return;
        }
        for k in start..KINDS.len() {
            cur.push(k);
            rec(k, cur, maxn, out);
            let _ = cur.pop();
        }
    }
    rec(0, &mut Vec::new(), maxn, &mut out);
    out
}

pub fn run(tier: &str, rep: &mut Report) {
    let cs = cases(tier);
    rep.bounds = json!({"task_kinds": KINDS, "tasks_per_loop": if tier == "thorough" { "1..=4" } else { "1..=3" }, "cases": cs.len(), "slack_ns": SLACK, "workers": "max_size = tasks + 1 + min_size", "min_size": [0, 2]});
    rep.require(&["cases_where_sum_exceeds_max", "cases_with_socket_wait"]);
    for c in cs.iter().step_by((cs.len() / 4).max(1)).take(4) {
        rep.sample(c.to_json());
    }
    let cfg = RunCfg { hang_after: Duration::from_millis(6000), ..RunCfg::default() };
    let budget = Budget::secs(if tier == "thorough" { 900 } else { 50 });
    sweep(&cs, 1, rep, &cfg, &budget, exec, judge);
    rep.states = rep.evaluations;
    rep.transitions = rep.evaluations;
}

pub fn replay(v: &Value, em: &mut Emitter) -> bool {
    match v.get("case").and_then(Case::from_json) {
        Some(c) => {
            exec(&c, em);
            true
        }
        None => false,
    }
}
