//! C18 (second half) – connect / accept / accept4 under a scripted kernel.
//! The byte-moving calls are covered by io.rs; these three hooked calls also flip the descriptor to
//! non-blocking and wait on the caller's behalf, but return a descriptor or a status instead of a
//! byte count. Every (call, descriptor kind, blocking mode, timeout setting, first kernel answer,
//! later answers / readiness-wait answers) combination runs on the real hooked call.
use crate::explore::{sweep, Budget};
use crate::report::Report;
use crate::runner::{ChildResult, Emitter, RunCfg};
use open_coroutine_core::common::now;
use open_coroutine_core::syscall as sc;
use serde_json::{json, Value};
use std::cell::RefCell;
use std::ffi::c_int;
use std::time::Duration;

const T0: u64 = 1_000_000_000_000;
const NEWFD: c_int = 4077;
const WAIT_BUDGET: u32 = 40;

#[derive(Clone, Copy, Debug, PartialEq, Eq)]
pub enum A {
    /// success: a new descriptor for accept, 0 for connect
    Ok,
    /// would block (EAGAIN for accept, EINPROGRESS for connect); field = answer of the readiness
    /// wait that follows: 0 ready, 1 nothing became ready (time passes), 2 the wait fails
    Block(u8),
    /// connect only: EALREADY
    Already(u8),
    Eintr,
    /// ECONNABORTED for accept, ECONNREFUSED for connect
    Fail,
}

impl A {
    fn to_s(self) -> String {
        let w = |w: u8| ["ready", "nothing-ready", "wait-error"][w.min(2) as usize];
        match self {
            A::Ok => "OK".into(),
            A::Block(x) => format!("WOULDBLOCK+{}", w(x)),
            A::Already(x) => format!("EALREADY+{}", w(x)),
            A::Eintr => "EINTR".into(),
            A::Fail => "FAIL".into(),
        }
    }
    fn from_s(s: &str) -> Option<A> {
        let w = |t: &str| ["ready", "nothing-ready", "wait-error"].iter().position(|x| *x == t).map(|p| p as u8);
        Some(match s {
            "OK" => A::Ok,
            "EINTR" => A::Eintr,
            "FAIL" => A::Fail,
            x if x.starts_with("WOULDBLOCK+") => A::Block(w(&x[11..])?),
            x if x.starts_with("EALREADY+") => A::Already(w(&x[9..])?),
            _ => return None,
        })
    }
}

pub const CALLS: [&str; 3] = ["accept", "accept4", "connect"];

#[derive(Clone, Debug)]
pub struct Case {
    call: &'static str,
    /// connect only: the descriptor is an end of a connected pair (getpeername succeeds) or a fresh
    /// unconnected socket
    connected: bool,
    nonblocking: bool,
    timeout: bool,
    script: Vec<A>,
    /// answers of further readiness waits (connect re-waits without asking the kernel again)
    waits: Vec<u8>,
}

impl Case {
    fn to_json(&self) -> Value {
        json!({"call": self.call, "connected_fd": self.connected, "nonblocking": self.nonblocking, "timeout_15ms": self.timeout,
            "script": self.script.iter().map(|a| a.to_s()).collect::<Vec<_>>(), "later_waits": self.waits})
    }
    fn from_json(v: &Value) -> Option<Case> {
        Some(Case {
            call: CALLS.iter().copied().find(|c| Some(*c) == v.get("call").and_then(Value::as_str))?,
            connected: v.get("connected_fd")?.as_bool()?,
            nonblocking: v.get("nonblocking")?.as_bool()?,
            timeout: v.get("timeout_15ms")?.as_bool()?,
            script: v.get("script")?.as_array()?.iter().map(|a| a.as_str().and_then(A::from_s)).collect::<Option<Vec<_>>>()?,
            waits: v.get("later_waits")?.as_array()?.iter().map(|x| x.as_u64().map(|x| x as u8)).collect::<Option<Vec<_>>>()?,
        })
    }
}

#[derive(Default)]
struct Kernel {
    connect: bool,
    script: Vec<A>,
    pos: usize,
    later: Vec<u8>,
    later_pos: usize,
    inner_calls: u32,
    waits: u32,
    pending_wait: Option<u8>,
    last_errno: i32,
    last_ok: bool,
    reqs: Vec<String>,
}

thread_local! {
    static K: RefCell<Kernel> = RefCell::new(Kernel::default());
}

fn kernel_answer() -> c_int {
    K.with(|k| {
        let mut k = k.borrow_mut();
        k.inner_calls += 1;
        let a = if k.pos < k.script.len() { k.script[k.pos] } else { A::Ok };
        k.pos += 1;
        k.reqs.push(a.to_s());
        k.last_ok = false;
        let e = match a {
            A::Ok => {
                k.last_ok = true;
                // errno is left alone on success, like a real kernel
                return if k.connect { 0 } else { NEWFD };
            }
            A::Block(w) => {
                k.pending_wait = Some(w);
                if k.connect { libc::EINPROGRESS } else { libc::EAGAIN }
            }
            A::Already(w) => {
                k.pending_wait = Some(w);
                libc::EALREADY
            }
            A::Eintr => libc::EINTR,
            A::Fail => if k.connect { libc::ECONNREFUSED } else { libc::ECONNABORTED },
        };
        k.last_errno = e;
        sc::set_errno(e);
        -1
    })
}

fn wait_hook(_fd: i32, _write: bool, timeout_ns: u64) -> i32 {
    K.with(|k| {
        let mut k = k.borrow_mut();
        k.waits += 1;
        if k.waits > WAIT_BUDGET {
            return 2;
        }
        let w = match k.pending_wait.take() {
            Some(w) => w,
            None => {
                let w = k.later.get(k.later_pos).copied().unwrap_or(1);
                k.later_pos += 1;
                w
            }
        };
        match w {
            0 => 1,
            1 => {
                open_coroutine_core::verif::clock_set(now().saturating_add(timeout_ns));
                1
            }
            _ => 2,
        }
    })
}

extern "C" fn k_accept(_: c_int, _: *mut libc::sockaddr, _: *mut libc::socklen_t) -> c_int {
    kernel_answer()
}
extern "C" fn k_accept4(_: c_int, _: *mut libc::sockaddr, _: *mut libc::socklen_t, _: c_int) -> c_int {
    kernel_answer()
}
extern "C" fn k_connect(_: c_int, _: *const libc::sockaddr, _: libc::socklen_t) -> c_int {
    kernel_answer()
}

pub struct Socks {
    pair: [c_int; 2],  // [plain, timed] ends of connected pairs
    fresh: [c_int; 2], // [plain, timed] unconnected stream sockets
}

pub fn open_socks() -> Socks {
    unsafe {
        let mut a = [0; 2];
        let mut b = [0; 2];
        assert_eq!(0, libc::socketpair(libc::AF_UNIX, libc::SOCK_STREAM, 0, a.as_mut_ptr()));
        assert_eq!(0, libc::socketpair(libc::AF_UNIX, libc::SOCK_STREAM, 0, b.as_mut_ptr()));
        let f0 = libc::socket(libc::AF_UNIX, libc::SOCK_STREAM, 0);
        let f1 = libc::socket(libc::AF_UNIX, libc::SOCK_STREAM, 0);
        assert!(f0 >= 0 && f1 >= 0);
        let tv = libc::timeval { tv_sec: 0, tv_usec: 15_000 };
        for fd in [b[0], f1] {
            for name in [libc::SO_RCVTIMEO, libc::SO_SNDTIMEO] {
                assert_eq!(0, libc::setsockopt(fd, libc::SOL_SOCKET, name, std::ptr::from_ref(&tv).cast(), size_of::<libc::timeval>() as u32));
            }
        }
        Socks { pair: [a[0], b[0]], fresh: [f0, f1] }
    }
}

pub struct Viol {
    clause: String,
    class: String,
    detail: String,
}

pub fn run_case(c: &Case, socks: &Socks) -> (Vec<Viol>, Vec<String>) {
    let set = if c.connected || c.call != "connect" { &socks.pair } else { &socks.fresh };
    let fd = set[usize::from(c.timeout)];
    let connect = c.call == "connect";
    K.with(|k| *k.borrow_mut() = Kernel { connect, script: c.script.clone(), later: c.waits.clone(), ..Kernel::default() });
    open_coroutine_core::verif::clock_set(T0);
    unsafe {
        let fl = libc::fcntl(fd, libc::F_GETFL);
        let fl = if c.nonblocking { fl | libc::O_NONBLOCK } else { fl & !libc::O_NONBLOCK };
        libc::fcntl(fd, libc::F_SETFL, fl);
    }
    let flags_before = unsafe { libc::fcntl(fd, libc::F_GETFL) };
    sc::set_errno(0);
    let mut addr: libc::sockaddr_un = unsafe { std::mem::zeroed() };
    addr.sun_family = libc::AF_UNIX as u16;
    let mut alen = size_of::<libc::sockaddr_un>() as libc::socklen_t;
    let ret: c_int = match c.call {
        "accept" => {
            let f: extern "C" fn(c_int, *mut libc::sockaddr, *mut libc::socklen_t) -> c_int = k_accept;
            sc::accept(Some(&f), fd, std::ptr::from_mut(&mut addr).cast(), &mut alen)
        }
        "accept4" => {
            let f: extern "C" fn(c_int, *mut libc::sockaddr, *mut libc::socklen_t, c_int) -> c_int = k_accept4;
            sc::accept4(Some(&f), fd, std::ptr::from_mut(&mut addr).cast(), &mut alen, 0)
        }
        _ => {
            let f: extern "C" fn(c_int, *const libc::sockaddr, libc::socklen_t) -> c_int = k_connect;
            sc::connect(Some(&f), fd, std::ptr::from_ref(&addr).cast(), alen)
        }
    };
    let errno = std::io::Error::last_os_error().raw_os_error().unwrap_or(0);
    let flags_after = unsafe { libc::fcntl(fd, libc::F_GETFL) };
    let vtime = now() - T0;
    let k = K.with(|k| std::mem::take(&mut *k.borrow_mut()));
    let mut viols = Vec::new();
    let mode = if c.nonblocking { "nonblocking" } else { "blocking" };
    let ctx = format!("kernel answers {:?}, {} readiness wait(s), {vtime}ns of virtual time, returned {ret} (errno {errno})", k.reqs, k.waits);
    if flags_after != flags_before {
        viols.push(Viol { clause: "blocking-mode-restored".into(), class: format!("{}:{mode}:{}", c.call, if ret == -1 { "error-path" } else { "success-path" }),
            detail: format!("F_GETFL before {flags_before:#o}, after {flags_after:#o}; {ctx}") });
    } else if c.nonblocking {
        // one kernel call, its answer handed back unchanged, no waiting
        let first = c.script.first().copied().unwrap_or(A::Ok);
        let want_ret = if first == A::Ok { if connect { 0 } else { NEWFD } } else { -1 };
        if k.waits > 0 || vtime > 0 || k.inner_calls != 1 {
            viols.push(Viol { clause: "nonblocking-never-waits".into(), class: c.call.into(), detail: format!("the caller's descriptor is O_NONBLOCK: {} kernel call(s); {ctx}", k.inner_calls) });
        } else if ret != want_ret || (ret == -1 && errno != k.last_errno) {
            viols.push(Viol { clause: "nonblocking-returns-the-kernels-answer".into(), class: c.call.into(), detail: format!("expected {want_ret} (errno {}); {ctx}", k.last_errno) });
        }
    }
    let mut wit = Vec::new();
    if k.waits > 0 {
        wit.push("wait_seam_consulted".to_string());
    }
    if k.inner_calls >= 2 {
        wit.push("cases_with_retries".to_string());
    }
    if k.waits > WAIT_BUDGET {
        wit.push("cases_ended_by_the_wait_budget".to_string());
    }
    if ret != -1 {
        wit.push("calls_that_succeeded".to_string());
    }
    (viols, wit)
}

pub fn cases(tier: &str) -> Vec<Case> {
    let depth = if tier == "thorough" { 5 } else { 4 };
    let mut v = Vec::new();
    for call in CALLS {
        let connect = call == "connect";
        // an interrupted connect goes on asynchronously and a non-blocking one is never interrupted:
        // EINTR is not an answer the kernel gives to the (always non-blocking) inner connect
        let alpha: Vec<A> = if connect {
            vec![A::Ok, A::Block(0), A::Block(1), A::Block(2), A::Already(0), A::Already(1), A::Fail]
        } else {
            vec![A::Ok, A::Block(0), A::Block(1), A::Block(2), A::Eintr, A::Fail]
        };
        let mut scripts: Vec<Vec<A>> = vec![vec![]];
        let mut level: Vec<Vec<A>> = vec![vec![]];
        // connect asks the kernel once; accept retries
        for _ in 0..(if connect { 1 } else { depth }) {
            let mut next = Vec::new();
            for s in &level {
                // nothing follows a final answer
                if matches!(s.last(), Some(A::Ok | A::Fail | A::Block(2) | A::Already(2))) {
                    continue;
                }
                for a in &alpha {
                    let mut t = s.clone();
                    t.push(*a);
                    next.push(t);
                }
            }
            scripts.extend(next.iter().cloned());
            level = next;
        }
        let mut later: Vec<Vec<u8>> = vec![vec![]];
        if connect {
            let mut level: Vec<Vec<u8>> = vec![vec![]];
            for _ in 0..depth {
                let mut next = Vec::new();
                for s in &level {
                    for a in 0..3u8 {
                        let mut t = s.clone();
                        t.push(a);
                        next.push(t);
                    }
                }
                later.extend(next.iter().cloned());
                level = next;
            }
        }
        for script in &scripts {
            for waits in &later {
                for connected in [true, false] {
                    if !connect && !connected {
                        continue;
                    }
                    for nonblocking in [false, true] {
                        if nonblocking && (script.len() > 1 || !waits.is_empty()) {
                            continue;
                        }
                        for timeout in [false, true] {
                            v.push(Case { call, connected, nonblocking, timeout, script: script.clone(), waits: waits.clone() });
                        }
                    }
                }
            }
        }
    }
    v
}

#[derive(Clone)]
struct Batch {
    cases: Vec<Case>,
}

fn exec(b: &Batch, em: &mut Emitter) {
    std::panic::set_hook(Box::new(|_| {}));
    open_coroutine_core::verif::clock_enable(T0);
    open_coroutine_core::verif::set_wait_hook(Some(wait_hook));
    let socks = open_socks();
    let mut n = 0u64;
    let mut wit: std::collections::BTreeMap<String, u64> = std::collections::BTreeMap::new();
    let mut sigs: Vec<String> = Vec::new();
    for (i, c) in b.cases.iter().enumerate() {
        em.emit(json!({"t":"at","i":i}));
        let (viols, w) = run_case(c, &socks);
        n += 1;
        for x in w {
            *wit.entry(x).or_insert(0) += 1;
        }
        for v in viols {
            let sig = format!("{}/{}", v.clause, v.class);
            let first = !sigs.contains(&sig);
            if first {
                sigs.push(sig);
            }
            em.emit(json!({"t":"viol","first":first,"clause":v.clause,"class":v.class,"detail": if first { v.detail } else { String::new() },"case": if first { c.to_json() } else { json!(null) }}));
        }
    }
    em.emit(json!({"t":"done","n":n,"witnesses":wit}));
}

pub fn run(tier: &str, rep: &mut Report) {
    let all = cases(tier);
    let batches: Vec<Batch> = all.chunks(500).map(|c| Batch { cases: c.to_vec() }).collect();
    rep.bounds = json!({"calls": CALLS, "answers": "OK | would-block (EAGAIN / EINPROGRESS) or EALREADY, each followed by a readiness wait that is ready / lets time pass / fails | EINTR (accept) | ECONNABORTED / ECONNREFUSED",
        "script_depth": if tier == "thorough" { "accept/accept4: 5 kernel answers; connect: 1 kernel answer + 5 further readiness waits" } else { "accept/accept4: 4 kernel answers; connect: 1 kernel answer + 4 further readiness waits" },
        "descriptor": ["end of a connected pair", "fresh unconnected socket (connect only)"], "modes": ["blocking", "non-blocking"], "socket_timeouts": ["unset", "15 ms"],
        "wait_budget": WAIT_BUDGET, "cases": all.len()});
    rep.require(&["cases_with_retries", "wait_seam_consulted", "calls_that_succeeded"]);
    for c in all.iter().step_by((all.len() / 4).max(1)).take(4) {
        rep.sample(c.to_json());
    }
    let cfg = RunCfg { hang_after: Duration::from_millis(4000), ..RunCfg::default() };
    let budget = Budget::secs(if tier == "thorough" { 600 } else { 40 });
    let mut total = 0u64;
    sweep(&batches, 1, rep, &cfg, &budget, exec, |b, res: &ChildResult, rep| {
        if !res.exit.ok() {
            let i = res.last("at").and_then(|a| a["i"].as_u64()).unwrap_or(0) as usize;
            let c = &b.cases[i.min(b.cases.len() - 1)];
            rep.violation(&format!("io.conn/process-survives/{}:{}", res.exit.describe(), c.call), format!("{}: the process {} inside the hooked call", c.to_json(), res.exit.describe()),
                json!({"engine":"seqx","scenario":"io.conn","case":c.to_json()}));
            return;
        }
        for v in res.find("viol") {
            let sig = format!("io.conn/{}/{}", v["clause"].as_str().unwrap(), v["class"].as_str().unwrap());
            if v["first"].as_bool().unwrap_or(false) && !rep.has_sig(&sig) {
                rep.violation(&sig, format!("{}: {}", v["case"], v["detail"].as_str().unwrap()), json!({"engine":"seqx","scenario":"io.conn","case":v["case"]}));
            } else {
                rep.violation(&sig, String::new(), json!(null));
            }
        }
        if let Some(d) = res.last("done") {
            total += d["n"].as_u64().unwrap_or(0);
            for (k, n) in d["witnesses"].as_object().unwrap() {
                rep.witness_n(k, n.as_u64().unwrap_or(0));
            }
        }
    });
    rep.evaluations = total;
    rep.states = total;
    rep.transitions = total;
    for (i, c) in all.iter().enumerate() {
        if c.script.len() + c.waits.len() >= 2 && rep.nontrivial.len() < 20000 {
            let _ = rep.nontrivial.insert(format!("{i}"));
        }
    }
}

pub fn replay(v: &Value, em: &mut Emitter) -> bool {
    let Some(c) = v.get("case").and_then(Case::from_json) else { return false };
    open_coroutine_core::verif::clock_enable(T0);
    open_coroutine_core::verif::set_wait_hook(Some(wait_hook));
    let socks = open_socks();
    em.emit(json!({"t":"case","case":c.to_json()}));
    let (viols, _) = run_case(&c, &socks);
    for v in viols {
        em.emit(json!({"t":"viol","property":"C18","clause":v.clause,"class":v.class,"detail":v.detail}));
    }
    em.emit(json!({"t":"end"}));
    true
}
