//! C10 – the scheduler completes each coroutine once and honours delays and cancels
//! (also carries the C07 report oracle on every coroutine it schedules, which covers the
//! scheduler-only transitions Suspend -> Ready and the Timeout promotion of syscall waits).
//!
//! Real `Scheduler`, virtual clock. For every configuration (1..3 coroutine programs x priorities)
//! a BFS over driver histories {Pass, Advance(1), Advance(5), Cancel(i)} with dedup on the
//! observable state; every history is followed by a drive to quiescence.
use crate::c07::{check_reports, Recorder, Rep};
use crate::explore::{sweep, Budget};
use crate::report::Report;
use crate::runner::{ChildResult, Emitter, RunCfg};
use open_coroutine_core::common::constants::{CoroutineState, SyscallName, SyscallState};
use open_coroutine_core::common::now;
use open_coroutine_core::coroutine::suspender::Suspender;
use open_coroutine_core::scheduler::{SchedulableCoroutine, Scheduler};
use serde_json::{json, Value};
use std::collections::{HashMap, HashSet, VecDeque};
use std::sync::atomic::{AtomicU64, Ordering};
use std::sync::{Arc, Mutex};
use std::time::Duration;

const T0: u64 = 1_000_000;
const STEPS: [&str; 9] = ["Suspend", "Delay1", "Delay5", "SysWait5", "Panic", "Return", "CancelSelf", "CancelNext", "Delay20"];
static UNIQ: AtomicU64 = AtomicU64::new(0);

#[derive(Clone, Debug)]
pub struct Config {
    progs: Vec<Vec<usize>>,
    prios: Vec<i64>,
    depth: usize,
}

#[derive(Clone, Debug, PartialEq, Eq)]
enum Op {
    Pass,
    Adv(u64),
    Cancel(usize),
}

fn op_json(o: &Op) -> Value {
    match o {
        Op::Pass => json!("Pass"),
        Op::Adv(d) => json!(format!("Advance({d})")),
        Op::Cancel(i) => json!(format!("Cancel({i})")),
    }
}

fn op_from(v: &Value) -> Option<Op> {
    let s = v.as_str()?;
    if s == "Pass" {
        Some(Op::Pass)
    } else if let Some(r) = s.strip_prefix("Advance(") {
        r.trim_end_matches(')').parse().ok().map(Op::Adv)
    } else if let Some(r) = s.strip_prefix("Cancel(") {
        r.trim_end_matches(')').parse().ok().map(Op::Cancel)
    } else {
        None
    }
}

fn cfg_json(c: &Config) -> Value {
    json!({"programs": c.progs.iter().map(|p| p.iter().map(|s| STEPS[*s]).collect::<Vec<_>>()).collect::<Vec<_>>(),
        "priorities": c.prios, "depth": c.depth})
}

fn cfg_from(v: &Value) -> Option<Config> {
    let progs = v.get("programs")?.as_array()?.iter().map(|p| {
        p.as_array().map(|a| a.iter().filter_map(|s| STEPS.iter().position(|x| Some(*x) == s.as_str())).collect())
    }).collect::<Option<Vec<Vec<usize>>>>()?;
    let prios = v.get("priorities")?.as_array()?.iter().map(Value::as_i64).collect::<Option<Vec<_>>>()?;
    Some(Config { progs, prios, depth: v.get("depth")?.as_u64()? as usize })
}

/// (virtual time, coroutine, step index, requested wake time of the previous step)
type Log = Arc<Mutex<Vec<(u64, usize, usize)>>>;

struct Outcome {
    key: String,
    viol: Option<(String, String, String)>, // (property, clause, detail)
}

fn run_history(cfg: &Config, hist: &[Op]) -> Outcome {
    open_coroutine_core::verif::clock_enable(T0);
    let uniq = UNIQ.fetch_add(1, Ordering::SeqCst);
    let m = cfg.progs.len();
    let log: Log = Arc::new(Mutex::new(Vec::new()));
    // wake time requested by the step a coroutine is currently parked in
    let wake: Arc<Mutex<Vec<u64>>> = Arc::new(Mutex::new(vec![0; m]));
    let mut sched = Scheduler::new(format!("c10-sched-{uniq}"), 64 * 1024);
    let mut ids = Vec::new();
    let shared_ids: Arc<Mutex<Vec<u64>>> = Arc::new(Mutex::new(Vec::new()));
    // (who was cancelled from inside a body, log length at that moment)
    let body_cancels: Arc<Mutex<Vec<(usize, usize)>>> = Arc::new(Mutex::new(Vec::new()));
    let mut reports: Vec<Arc<Mutex<Vec<Rep>>>> = Vec::new();
    for i in 0..m {
        let prog = cfg.progs[i].clone();
        let (lg, wk) = (log.clone(), wake.clone());
        let (sid, bc) = (shared_ids.clone(), body_cancels.clone());
        let mut co: SchedulableCoroutine<'static> = open_coroutine_core::co!(
            Some(format!("c10-{uniq}-{i}")),
            move |s: &Suspender<(), ()>, ()| {
                for (k, st) in prog.iter().enumerate() {
                    lg.lock().unwrap().push((now(), i, k));
                    match STEPS[*st] {
                        "Suspend" => {
                            wk.lock().unwrap()[i] = 0;
                            s.suspend()
                        }
                        "Delay1" => {
                            wk.lock().unwrap()[i] = now() + 1;
                            s.delay(Duration::from_nanos(1))
                        }
                        "Delay5" => {
                            wk.lock().unwrap()[i] = now() + 5;
                            s.delay(Duration::from_nanos(5))
                        }
                        "Delay20" => {
                            wk.lock().unwrap()[i] = now() + 20;
                            s.delay(Duration::from_nanos(20))
                        }
                        "SysWait5" => {
                            // what a hooked sleep does: Syscall(Executing) -> Syscall(Suspend(t)) -> yield
                            let t = now() + 5;
                            wk.lock().unwrap()[i] = t;
                            let me = || SchedulableCoroutine::current().expect("current");
                            me().syscall((), SyscallName::sleep, SyscallState::Executing).expect("enter");
                            me().syscall((), SyscallName::sleep, SyscallState::Suspend(t)).expect("suspend");
                            s.until(t);
                            if let CoroutineState::Syscall((), n, SyscallState::Callback | SyscallState::Timeout) = me().state() {
                                me().syscall((), n, SyscallState::Executing).expect("executing");
                            }
                            me().running().expect("leave");
                        }
                        "Panic" => panic!("boom"),
                        "CancelSelf" | "CancelNext" => {
                            // a cancel request made while a coroutine is being resumed: the
                            // target must not be resumed again after its current/next yield
                            let ids = sid.lock().unwrap().clone();
                            let j = if STEPS[*st] == "CancelSelf" { i } else { (i + 1) % ids.len() };
                            bc.lock().unwrap().push((j, lg.lock().unwrap().len()));
                            Scheduler::try_cancel_coroutine(ids[j]);
                            wk.lock().unwrap()[i] = 0;
                            s.suspend()
                        }
                        _ => return Some(100 + i),
                    }
                }
                lg.lock().unwrap().push((now(), i, prog.len()));
                Some(100 + i)
            },
            Some(64 * 1024),
            Some(cfg.prios[i])
        )
        .expect("create");
        let r = Arc::new(Mutex::new(Vec::new()));
        co.add_listener(Recorder(r.clone()));
        reports.push(r);
        ids.push(sched.submit_raw_co(co).expect("submit"));
    }
    *shared_ids.lock().unwrap() = ids.clone();
    let mut results: HashMap<u64, Result<Option<usize>, String>> = HashMap::new();
    let mut cancelled_at: Vec<Option<usize>> = vec![None; m]; // log length at cancel time
    let mut viol: Option<(String, String, String)> = None;
    let total_ops = hist.len();
    // after the history: drive to quiescence (advance far, pass) a few times
    let mut script: Vec<Op> = hist.to_vec();
    for _ in 0..(cfg.progs.iter().map(Vec::len).max().unwrap_or(0) + 2) {
        script.push(Op::Adv(1000));
        script.push(Op::Pass);
    }
    'outer: for (k, op) in script.iter().enumerate() {
        let at = |w: String| {
            if k < total_ops { format!("after op #{k} {}: {w}", op_json(op)) } else { format!("while driving to quiescence (step {}): {w}", k - total_ops) }
        };
        match op {
            Op::Adv(d) => open_coroutine_core::verif::clock_set(now() + d),
            Op::Cancel(i) => {
                Scheduler::try_cancel_coroutine(ids[*i]);
                if cancelled_at[*i].is_none() && !results.contains_key(&ids[*i]) {
                    cancelled_at[*i] = Some(log.lock().unwrap().len());
                }
            }
            Op::Pass => {
                let start = now();
                match sched.try_timeout_schedule(start + 1_000_000_000) {
                    Ok((_, rs)) => {
                        for (id, r) in rs {
                            if results.insert(id, r.map_err(str::to_string)).is_some() {
                                let i = ids.iter().position(|x| *x == id);
                                viol = Some(("C10".into(), "result-reported-exactly-once".into(), at(format!("coroutine {i:?} was reported finished a second time"))));
                                break 'outer;
                            }
                        }
                    }
                    Err(e) => {
                        viol = Some(("C10".into(), "scheduling-pass-succeeds".into(), at(format!("try_timeout_schedule failed: {e}"))));
                        break 'outer;
                    }
                }
                // cancels requested from inside bodies during this pass
                for (j, n) in body_cancels.lock().unwrap().iter() {
                    if cancelled_at[*j].is_none() && !results.contains_key(&ids[*j]) {
                        cancelled_at[*j] = Some(*n);
                    }
                }
                // every coroutine that was due when the pass started has advanced
                let lg = log.lock().unwrap().clone();
                for i in 0..m {
                    if results.contains_key(&ids[i]) || cancelled_at[i].is_some() {
                        continue;
                    }
                    let w = wake.lock().unwrap()[i];
                    let started = lg.iter().any(|e| e.1 == i);
                    if !started || w <= start {
                        viol = Some(("C10".into(), "due-coroutine-resumed-by-first-pass".into(), at(format!("coroutine {i} (wake time {w}, pass started at {start}) was not advanced by the pass; log {lg:?}"))));
                        break 'outer;
                    }
                }
            }
        }
        // cancels requested from inside bodies (target not finished at that moment)
        for (j, n) in body_cancels.lock().unwrap().iter() {
            if cancelled_at[*j].is_none() && !results.contains_key(&ids[*j]) {
                // the canceller's own current step was logged before the request; the target may
                // still finish the step it is in (if it is the canceller itself it just yields)
                cancelled_at[*j] = Some(*n);
            }
        }
        // never resumed before its wake-up time; cancelled ones never log again
        let lg = log.lock().unwrap().clone();
        for i in 0..m {
            let mine: Vec<&(u64, usize, usize)> = lg.iter().filter(|e| e.1 == i).collect();
            for w in mine.windows(2) {
                let d = match STEPS[cfg.progs[i][w[0].2]] {
                    "Delay1" => 1,
                    "Delay5" | "SysWait5" => 5,
                    "Delay20" => 20,
                    _ => 0,
                };
                if w[1].0 < w[0].0 + d {
                    viol = Some(("C10".into(), "never-resumed-before-wake-time".into(), at(format!("coroutine {i} step {} asked to sleep until {} but step {} ran at {}", w[0].2, w[0].0 + d, w[1].2, w[1].0))));
                    break 'outer;
                }
            }
            if let Some(n) = cancelled_at[i] {
                if lg.iter().skip(n).any(|e| e.1 == i) {
                    viol = Some(("C10".into(), "cancelled-coroutine-never-resumed".into(), at(format!("coroutine {i} was cancelled while not running but ran again; log {lg:?}"))));
                    break 'outer;
                }
                if results.contains_key(&ids[i]) {
                    viol = Some(("C10".into(), "cancelled-coroutine-never-resumed".into(), at(format!("coroutine {i} was cancelled before finishing but a result was reported"))));
                    break 'outer;
                }
            }
        }
        // C07: reports of every coroutine form a path in the documented graph
        for i in 0..m {
            let rs = reports[i].lock().unwrap().clone();
            let last = rs.iter().rev().find_map(|r| r.new).unwrap_or(CoroutineState::Ready);
            if let Err((c, d)) = check_reports(&rs, &last) {
                viol = Some(("C07".into(), c, at(format!("coroutine {i}: {d}"))));
                break 'outer;
            }
        }
    }
    // at quiescence: every coroutine that was not cancelled has its own result
    if viol.is_none() {
        for i in 0..m {
            let want: Option<Result<Option<usize>, String>> = if cancelled_at[i].is_some() {
                None
            } else if cfg.progs[i].iter().any(|s| STEPS[*s] == "Panic") {
                Some(Err("boom".into()))
            } else {
                Some(Ok(Some(100 + i)))
            };
            let got = results.get(&ids[i]).cloned();
            if got != want {
                viol = Some(("C10".into(), "each-coroutine-finishes-with-its-own-result".into(), format!("at quiescence coroutine {i} has result {got:?}, expected {want:?} (no other coroutine may be affected by a cancel)")));
                break;
            }
        }
    }
    // canonical key of the state reached by `hist` itself (before the quiescence drive) is
    // not separately observable here, so the key is built from what the history made visible
    let lg = log.lock().unwrap().clone();
    let mut key = String::new();
    for i in 0..m {
        let pc = lg.iter().filter(|e| e.1 == i).count();
        key.push_str(&format!("[{i}:pc{pc}"));
        key.push(']');
    }
    if viol.is_some() {
        // the scheduler's Drop asserts that nothing is left; after a violation that may not hold
        std::mem::forget(sched);
    } else {
        drop(sched);
    }
    Outcome { key, viol }
}

/// key of the state reached by exactly `hist` (no quiescence drive): executed separately so that
/// dedup is on the real intermediate state
fn state_key(cfg: &Config, hist: &[Op]) -> String {
    // cheap abstract key computed from the observable effects: per coroutine (steps logged,
    // pending wake offset, cancelled, finished) – obtained by replaying without the final drive
    open_coroutine_core::verif::clock_enable(T0);
    let uniq = UNIQ.fetch_add(1, Ordering::SeqCst);
    let m = cfg.progs.len();
    let pcs: Arc<Mutex<Vec<usize>>> = Arc::new(Mutex::new(vec![0; m]));
    let wake: Arc<Mutex<Vec<u64>>> = Arc::new(Mutex::new(vec![0; m]));
    let mut sched = Scheduler::new(format!("c10-key-{uniq}"), 64 * 1024);
    let mut ids = Vec::new();
    let shared_ids: Arc<Mutex<Vec<u64>>> = Arc::new(Mutex::new(Vec::new()));
    let body_cancelled: Arc<Mutex<Vec<bool>>> = Arc::new(Mutex::new(vec![false; m]));
    for i in 0..m {
        let prog = cfg.progs[i].clone();
        let (pc, wk) = (pcs.clone(), wake.clone());
        let (sid, cn) = (shared_ids.clone(), body_cancelled.clone());
        let co: SchedulableCoroutine<'static> = open_coroutine_core::co!(
            Some(format!("c10k-{uniq}-{i}")),
            move |s: &Suspender<(), ()>, ()| {
                for st in &prog {
                    pc.lock().unwrap()[i] += 1;
                    match STEPS[*st] {
                        "Suspend" => s.suspend(),
                        "Delay1" => { wk.lock().unwrap()[i] = now() + 1; s.delay(Duration::from_nanos(1)) }
                        "Delay5" => { wk.lock().unwrap()[i] = now() + 5; s.delay(Duration::from_nanos(5)) }
                        "Delay20" => { wk.lock().unwrap()[i] = now() + 20; s.delay(Duration::from_nanos(20)) }
                        "SysWait5" => {
                            let t = now() + 5;
                            wk.lock().unwrap()[i] = t;
                            let me = || SchedulableCoroutine::current().expect("current");
                            let _ = me().syscall((), SyscallName::sleep, SyscallState::Executing);
                            let _ = me().syscall((), SyscallName::sleep, SyscallState::Suspend(t));
                            s.until(t);
                            if let CoroutineState::Syscall((), n, SyscallState::Callback | SyscallState::Timeout) = me().state() {
                                let _ = me().syscall((), n, SyscallState::Executing);
                            }
                            let _ = me().running();
                        }
                        "Panic" => panic!("boom"),
                        "CancelSelf" | "CancelNext" => {
                            let ids = sid.lock().unwrap().clone();
                            let j = if STEPS[*st] == "CancelSelf" { i } else { (i + 1) % ids.len() };
                            Scheduler::try_cancel_coroutine(ids[j]);
                            cn.lock().unwrap()[j] = true;
                            s.suspend()
                        }
                        _ => return Some(100 + i),
                    }
                }
                pc.lock().unwrap()[i] += 100;
                Some(100 + i)
            },
            Some(64 * 1024),
            Some(cfg.prios[i])
        ).expect("create");
        ids.push(sched.submit_raw_co(co).expect("submit"));
    }
    *shared_ids.lock().unwrap() = ids.clone();
    let mut done: HashSet<u64> = HashSet::new();
    let mut cancelled = vec![false; m];
    for op in hist {
        match op {
            Op::Adv(d) => open_coroutine_core::verif::clock_set(now() + d),
            Op::Cancel(i) => { Scheduler::try_cancel_coroutine(ids[*i]); cancelled[*i] = true; }
            Op::Pass => {
                if let Ok((_, rs)) = sched.try_timeout_schedule(now() + 1_000_000_000) {
                    done.extend(rs.keys());
                }
            }
        }
    }
    let t = now();
    let mut key = String::new();
    for i in 0..m {
        let w = wake.lock().unwrap()[i];
        key.push_str(&format!("[pc{} w{} c{} d{}]", pcs.lock().unwrap()[i], w.saturating_sub(t), (cancelled[i] || body_cancelled.lock().unwrap()[i]) as u8, done.contains(&ids[i]) as u8));
    }
    // drain so that the scheduler can be dropped
    for _ in 0..6 {
        open_coroutine_core::verif::clock_set(now() + 1000);
        let _ = sched.try_timeout_schedule(now() + 1_000_000_000);
    }
    drop(sched);
    key
}

fn on_fresh_thread<T: Send, F: FnOnce() -> T + Send>(f: F) -> Option<T> {
    std::thread::scope(|sc| {
        std::thread::Builder::new().stack_size(1 << 20).spawn_scoped(sc, f).expect("spawn").join().ok()
    })
}

fn ops_for(cfg: &Config) -> Vec<Op> {
    let mut v = vec![Op::Pass, Op::Adv(1), Op::Adv(5)];
    for i in 0..cfg.progs.len() {
        v.push(Op::Cancel(i));
    }
    v
}

fn exec(cfg: &Config, em: &mut Emitter) {
    std::panic::set_hook(Box::new(|_| {}));
    let mut seen: HashSet<String> = HashSet::new();
    let mut frontier: VecDeque<Vec<Op>> = VecDeque::from([vec![]]);
    let (mut states, mut transitions, mut execs) = (0u64, 0u64, 0u64);
    let mut sigs: Vec<String> = Vec::new();
    while let Some(h) = frontier.pop_front() {
        em.emit(json!({"t":"at","h":h.iter().map(op_json).collect::<Vec<_>>()}));
        let Some(out) = on_fresh_thread(|| run_history(cfg, &h)) else {
            em.emit(json!({"t":"viol","property":"C10","clause":"harness-thread-panicked","detail":"the history panicked outside a coroutine (scheduler drop assertion?)","history":h.iter().map(op_json).collect::<Vec<_>>()}));
            continue;
        };
        execs += 1;
        if !h.is_empty() {
            transitions += 1;
        }
        if let Some((prop, clause, detail)) = out.viol {
            let sig = format!("{prop}/{clause}");
            if !sigs.contains(&sig) {
                sigs.push(sig);
                em.emit(json!({"t":"viol","property":prop,"clause":clause,"detail":detail,"history":h.iter().map(op_json).collect::<Vec<_>>()}));
            }
            continue;
        }
        let Some(key) = on_fresh_thread(|| state_key(cfg, &h)) else { continue };
        if seen.insert(key) {
            states += 1;
            if h.len() < cfg.depth {
                for op in ops_for(cfg) {
                    // a second cancel of the same coroutine adds nothing
                    if let Op::Cancel(_) = op {
                        if h.contains(&op) {
                            continue;
                        }
                    }
                    let mut n = h.clone();
                    n.push(op);
                    frontier.push_back(n);
                }
            }
        }
    }
    em.emit(json!({"t":"done","states":states,"transitions":transitions,"execs":execs}));
}

fn programs(max_len: usize) -> Vec<Vec<usize>> {
    // steps 0..=4 are body steps, 5 = Return (implicit at the end)
    let mut out: Vec<Vec<usize>> = vec![vec![]];
    let mut level: Vec<Vec<usize>> = vec![vec![]];
    for _ in 0..max_len {
        let mut next = Vec::new();
        for p in &level {
            if p.last().is_some_and(|s| STEPS[*s] == "Panic") {
                continue;
            }
            for s in [0usize, 1, 2, 3, 4, 6, 7] {
                let mut q = p.clone();
                q.push(s);
                next.push(q);
            }
        }
        out.extend(next.iter().cloned());
        level = next;
    }
    out
}

pub fn configs(tier: &str) -> Vec<Config> {
    let thorough = tier == "thorough";
    let mut out = Vec::new();
    let depth = if thorough { 6 } else { 4 };
    for p in programs(if thorough { 3 } else { 2 }) {
        out.push(Config { progs: vec![p], prios: vec![0], depth });
    }
    let ps = programs(if thorough { 2 } else { 1 });
    for a in &ps {
        for b in &ps {
            for prios in [[0, 0], [1, 0]] {
                out.push(Config { progs: vec![a.clone(), b.clone()], prios: prios.to_vec(), depth });
            }
        }
    }
    // both wake-up heaps in use at once: a LONG plain delay pending while syscall waits and short
    // delays come due (step 8 = Delay20 is only used here)
    for a in [vec![8usize], vec![8, 0], vec![0, 8]] {
        for b in [vec![3usize], vec![1, 3], vec![3, 2], vec![2], vec![3, 3]] {
            for (x, y) in [(a.clone(), b.clone()), (b.clone(), a.clone())] {
                out.push(Config { progs: vec![x, y], prios: vec![0, 0], depth: if thorough { 6 } else { 5 } });
            }
        }
    }
    let ps = programs(1);
    for a in &ps {
        for b in &ps {
            for c in &ps {
                if !thorough && (a.is_empty() || b.is_empty() || c.is_empty()) {
                    continue;
                }
                out.push(Config { progs: vec![a.clone(), b.clone(), c.clone()], prios: vec![0, 1, 0], depth: depth.min(if thorough { 5 } else { 3 }) });
            }
        }
    }
    out
}

pub fn run(tier: &str, rep: &mut Report, for_prop: &str) {
    let cfgs = configs(tier);
    rep.bounds = json!({"coroutines":"1..=3","program_steps":STEPS,"driver_ops":["Pass","Advance(1)","Advance(5)","Cancel(i)"],
        "driver_depth": cfgs.iter().map(|c| c.depth).max(), "configurations": cfgs.len(),
        "dedup_key":"per coroutine (steps executed, pending wake offset, cancelled, finished)",
        "after_each_history":"drive to quiescence (advance 1000, pass) and check final results"});
    for c in cfgs.iter().step_by((cfgs.len() / 3).max(1)).take(3) {
        rep.sample(cfg_json(c));
    }
    let cfg = RunCfg::default();
    let budget = Budget::secs(if tier == "thorough" { 2400 } else { 50 });
    let (mut st, mut tr, mut ex) = (0u64, 0u64, 0u64);
    let scen = rep.scenario.clone();
    sweep(&cfgs, 1, rep, &cfg, &budget, exec, |c, res: &ChildResult, rep| {
        if !res.exit.ok() {
            let at = res.last("at").map(|a| a["h"].clone()).unwrap_or(json!([]));
            rep.violation(
                &format!("{scen}/process-died/{}", res.exit.describe()),
                format!("config {} history {at}: child {}", cfg_json(c), res.exit.describe()),
                json!({"engine":"seqx","scenario":scen,"config":cfg_json(c),"history":at}),
            );
            return;
        }
        for v in res.find("viol") {
            let prop = v["property"].as_str().unwrap();
            rep.violation_for(
                prop,
                &format!("{scen}/{}/-", v["clause"].as_str().unwrap()),
                format!("config {} history {}: {}", cfg_json(c), v["history"], v["detail"].as_str().unwrap()),
                json!({"engine":"seqx","scenario":scen,"config":cfg_json(c),"history":v["history"]}),
            );
        }
        if let Some(d) = res.last("done") {
            st += d["states"].as_u64().unwrap();
            tr += d["transitions"].as_u64().unwrap();
            ex += d["execs"].as_u64().unwrap();
            if c.progs.len() >= 2 {
                let _ = rep.nontrivial.insert(cfg_json(c).to_string());
            }
        }
    });
    let _ = for_prop;
    rep.evaluations = ex;
    rep.states = st;
    rep.transitions = tr;
}

pub fn replay(v: &Value, em: &mut Emitter) -> bool {
    let (Some(c), Some(h)) = (v.get("config").and_then(cfg_from), v.get("history").and_then(Value::as_array)) else { return false };
    let h: Vec<Op> = h.iter().filter_map(op_from).collect();
    em.emit(json!({"t":"config","config":cfg_json(&c),"history":h.iter().map(op_json).collect::<Vec<_>>()}));
    let out = run_history(&c, &h);
    em.emit(json!({"t":"end","violation":out.viol.map(|(p, c, d)| json!({"property":p,"clause":c,"detail":d}))}));
    true
}
