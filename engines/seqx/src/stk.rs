//! C23 – stack growth runs the callback with room to spare and restores the bookkeeping.
//! C24 – a memory fault in a coroutine only fails that coroutine.
//! Every case runs in its own forked child: crashes are observations.
use crate::explore::{sweep, Budget};
use crate::report::Report;
use crate::runner::{ChildResult, Emitter, RunCfg};
use open_coroutine_core::coroutine::suspender::Suspender;
use open_coroutine_core::scheduler::{SchedulableCoroutine, Scheduler};
use serde_json::{json, Value};
use std::hint::black_box;
use std::sync::atomic::{AtomicU64, AtomicUsize, Ordering};
use std::sync::{Arc, Mutex};
use std::time::Duration;

// ------------------------------------------------------------------------------------------
// C23

#[derive(Clone, Debug)]
pub struct GrowCase {
    coroutine: bool,
    depth: usize,
    frame_kb: usize,
    /// (red zone, stack size); 0 = library default red zone
    red_zone: usize,
    stack_size: usize,
    /// panic when this many levels are left (None = no panic)
    panic_left: Option<usize>,
    /// at every level, before descending, a side call through the growth point that returns
    /// (tree-shaped recursion: a growth that has ended is followed by further growth decisions)
    comb: bool,
    /// the panic is caught at this level (counted like `panic_left`), i.e. INSIDE the callbacks of
    /// the outer growths, and the recursion then returns normally through them
    catch_at: Option<usize>,
}

impl GrowCase {
    fn to_json(&self) -> Value {
        json!({"caller": if self.coroutine { "coroutine" } else { "thread" }, "depth": self.depth, "frame_kb": self.frame_kb, "red_zone": self.red_zone, "stack_size": self.stack_size, "panic_with_levels_left": self.panic_left, "side_call_at_every_level": self.comb, "panic_caught_with_levels_left": self.catch_at})
    }
    fn from_json(v: &Value) -> Option<GrowCase> {
        Some(GrowCase {
            coroutine: v.get("caller")?.as_str()? == "coroutine",
            depth: v.get("depth")?.as_u64()? as usize,
            frame_kb: v.get("frame_kb")?.as_u64()? as usize,
            red_zone: v.get("red_zone")?.as_u64()? as usize,
            stack_size: v.get("stack_size")?.as_u64()? as usize,
            panic_left: v.get("panic_with_levels_left").and_then(Value::as_u64).map(|x| x as usize),
            comb: v.get("side_call_at_every_level").and_then(Value::as_bool).unwrap_or(false),
            catch_at: v.get("panic_caught_with_levels_left").and_then(Value::as_u64).map(|x| x as usize),
        })
    }
}

static MIN_ROOM: AtomicUsize = AtomicUsize::new(usize::MAX);
/// (segments before the call that panicked) << 16 | (segments after its panic was caught); 0 = nothing recorded
static CATCH_SEGS: AtomicUsize = AtomicUsize::new(0);
static CATCH_AT: AtomicUsize = AtomicUsize::new(usize::MAX);
static CALLBACKS: AtomicUsize = AtomicUsize::new(0);

fn note_room(red_zone: usize) {
    // inside a callback: how much stack is left below the current position in the segment it is in
    let _ = CALLBACKS.fetch_add(1, Ordering::Relaxed);
    let probe = 0u8;
    let sp = std::ptr::from_ref(&probe) as usize;
    if let Some(co) = SchedulableCoroutine::current() {
        for info in co.stack_infos() {
            if info.stack_bottom <= sp && sp < info.stack_top {
                let room = sp - info.stack_bottom;
                let _ = MIN_ROOM.fetch_min(room, Ordering::Relaxed);
                return;
            }
        }
        // not inside any recorded segment: bookkeeping is wrong
        MIN_ROOM.store(0, Ordering::Relaxed);
    }
    let _ = red_zone;
}

// The frames are kept in functions of their own that are never inlined: a callback that runs in
// place could otherwise be merged into its caller and double the caller's frame behind the
// harness' back (the red zone a case asks for is sized for ONE frame between growth points).
#[inline(never)]
fn side_body<const KB: usize>(red: usize) -> usize {
    let mut buf = [7u8; KB];
    let _ = black_box(&mut buf);
    note_room(red);
    usize::from(black_box(buf[KB / 2]) == 7)
}

#[inline(never)]
fn side<const KB: usize>(red: usize, size: usize) -> usize {
    SchedulableCoroutine::maybe_grow_with(red, size, || side_body::<KB>(red)).expect("stack allocation failed")
}

#[inline(never)]
fn level<const KB: usize>(left: usize, red: usize, size: usize, panic_left: Option<usize>, comb: bool) -> usize {
    // this frame stays live while the recursion goes deeper
    let mut buf = [0u8; KB];
    buf[0] = left as u8;
    let _ = black_box(&mut buf);
    note_room(red);
    if panic_left == Some(left) {
        panic!("planned panic in a grown callback");
    }
    if comb && 1 != side::<KB>(red, size) {
        return usize::MAX / 2;
    }
    let below = if left > 0 {
        if CATCH_AT.load(Ordering::Relaxed) == left {
            // catch the panic of the deeper levels here, inside the callbacks of the outer growths
            let segs = || SchedulableCoroutine::current().map_or(0, |co| co.stack_infos().len());
            let before = segs();
            let r = std::panic::catch_unwind(std::panic::AssertUnwindSafe(|| recurse::<KB>(left - 1, red, size, panic_left, comb)));
            CATCH_SEGS.store((before << 16) | segs(), Ordering::Relaxed);
            // growth decisions keep working from here
            if comb && 1 != side::<KB>(red, size) {
                return usize::MAX / 2;
            }
            r.unwrap_or(left)
        } else {
            recurse::<KB>(left - 1, red, size, panic_left, comb)
        }
    } else {
        0
    };
    below + 1 + usize::from(black_box(buf[0]) == 255 && left == 0)
}

#[inline(never)]
fn recurse<const KB: usize>(left: usize, red: usize, size: usize, panic_left: Option<usize>, comb: bool) -> usize {
    SchedulableCoroutine::maybe_grow_with(red, size, || level::<KB>(left, red, size, panic_left, comb)).expect("stack allocation failed")
}

fn go(c: &GrowCase, left: usize, panic_left: Option<usize>) -> usize {
    let red = if c.red_zone == 0 { open_coroutine_core::common::default_red_zone() } else { c.red_zone };
    if c.frame_kb >= 10 { recurse::<10240>(left, red, c.stack_size, panic_left, c.comb) } else { recurse::<1024>(left, red, c.stack_size, panic_left, c.comb) }
}

pub fn exec_grow(c: &GrowCase, em: &mut Emitter) {
    std::panic::set_hook(Box::new(|_| {}));
    let body = {
        let c = c.clone();
        move || -> Value {
            CATCH_AT.store(c.catch_at.unwrap_or(usize::MAX), Ordering::Relaxed);
            let infos_before = SchedulableCoroutine::current().map(|co| co.stack_infos().len());
            let first = std::panic::catch_unwind(std::panic::AssertUnwindSafe(|| go(&c, c.depth, c.panic_left)));
            let infos_mid = SchedulableCoroutine::current().map(|co| co.stack_infos().len());
            let min_room_first = MIN_ROOM.swap(usize::MAX, Ordering::Relaxed);
            CATCH_AT.store(usize::MAX, Ordering::Relaxed);
            // deep recursion keeps working afterwards
            let second = std::panic::catch_unwind(std::panic::AssertUnwindSafe(|| go(&c, 50, None)));
            let infos_after = SchedulableCoroutine::current().map(|co| co.stack_infos().len());
            let m2 = MIN_ROOM.load(Ordering::Relaxed);
            let room1 = if min_room_first == usize::MAX { Value::Null } else { json!(min_room_first) };
            let room2 = if m2 == usize::MAX { Value::Null } else { json!(m2) };
            let calls = CALLBACKS.load(Ordering::Relaxed);
            json!({"first": first.ok(), "second": second.ok(), "infos": [infos_before, infos_mid, infos_after],
                "min_room_first": room1, "min_room_second": room2, "callbacks": calls, "segments_around_inner_catch": match CATCH_SEGS.load(Ordering::Relaxed) { 0 => Value::Null, x => json!([x >> 16, x & 0xffff]) }})
        }
    };
    em.emit(json!({"t":"begin"}));
    let out = if c.coroutine {
        let res: Arc<Mutex<Option<Value>>> = Arc::new(Mutex::new(None));
        let r2 = res.clone();
        let mut co: SchedulableCoroutine<'static> = open_coroutine_core::co!(
            Some("c23".to_string()),
            move |_: &Suspender<(), ()>, ()| {
                *r2.lock().unwrap() = Some(body());
                Some(1)
            },
            Some(128 * 1024)
        )
        .expect("coroutine");
        let st = co.resume();
        let mut v = res.lock().unwrap().take().unwrap_or(json!({}));
        v["state"] = json!(st.map(|s| crate::util::state_str(&s)).unwrap_or_else(|e| format!("Err({e})")));
        v
    } else {
        // a plain thread with a modest stack of its own: growing is what lets it recurse deeply
        std::thread::Builder::new().stack_size(256 * 1024).spawn(body).expect("spawn").join().unwrap_or(json!({"thread":"panicked"}))
    };
    em.emit(json!({"t":"end","out":out}));
}

pub fn judge_grow(c: &GrowCase, res: &ChildResult, rep: &mut Report) {
    let replay = || json!({"engine":"seqx","scenario":"stk.grow","case":c.to_json()});
    let who = if c.coroutine { "coroutine" } else { "thread" };
    let pclass = match (c.panic_left.is_some(), c.comb) { (true, false) => "after-caught-panic", (false, false) => "no-panic", (true, true) => "after-caught-panic:side-calls", (false, true) => "no-panic:side-calls" };
    if !res.exit.ok() {
        rep.violation(&format!("stk.grow/deep-recursion-keeps-working/{who}:{pclass}:{}", res.exit.describe()), format!("{}: the process {}", c.to_json(), res.exit.describe()), replay());
        return;
    }
    let Some(e) = res.last("end") else {
        rep.machinery_errors.push("stk.grow: no end record".into());
        return;
    };
    let _ = rep.nontrivial.insert(c.to_json().to_string());
    let o = &e["out"];
    if c.coroutine && o["state"] != "Complete(Some(1))" {
        rep.violation(&format!("stk.grow/deep-recursion-keeps-working/{who}:{pclass}:state"), format!("{}: the coroutine ended in {}", c.to_json(), o["state"]), replay());
        return;
    }
    // the callback's value comes back
    // a panic caught at level k: the levels above k return normally (k stands in for the lost part)
    let want_first = match (c.panic_left, c.catch_at) {
        (Some(_), Some(k)) => Some((k + 1 + (c.depth - k)) as u64),
        (Some(_), None) => None,
        _ => Some((c.depth + 1) as u64),
    };
    if o["first"].as_u64() != want_first {
        rep.violation(&format!("stk.grow/callback-value-returned/{who}"), format!("{}: the recursion returned {} (expected {want_first:?})", c.to_json(), o["first"]), replay());
        return;
    }
    if o["second"].as_u64() != Some(51) {
        rep.violation(&format!("stk.grow/deep-recursion-keeps-working/{who}:{pclass}:second"), format!("{}: a second recursion of depth 50 afterwards returned {}", c.to_json(), o["second"]), replay());
        return;
    }
    if c.coroutine {
        // room >= red zone inside every callback (minus the callback's own frame, which is
        // allocated after the decision was taken)
        let red = if c.red_zone == 0 { 16 * 1024 + 4096 } else { c.red_zone };
        let tolerance = c.frame_kb * 1024 + 2048;
        for k in ["min_room_first", "min_room_second"] {
            if let Some(room) = o[k].as_u64() {
                if (room as usize) + tolerance < red {
                    rep.violation(&format!("stk.grow/callback-has-red-zone-of-room/{pclass}"), format!("{}: a callback ran with only {room} bytes left in its segment (red zone {red}, own frame <= {tolerance})", c.to_json()), replay());
                    return;
                }
            }
        }
        if let Some(a) = o["segments_around_inner_catch"].as_array() {
            if a[0] != a[1] {
                rep.violation(&format!("stk.grow/stack-segments-restored/{pclass}:caught-inside-outer-growth"), format!("{}: the coroutine reported {} segment(s) before the call that panicked and {} after the panic was caught (inside the callbacks of the outer growths)", c.to_json(), a[0], a[1]), replay());
                return;
            }
            rep.witness("panics_caught_inside_outer_growths");
        }
        let infos = o["infos"].as_array().unwrap();
        if infos[1] != infos[0] || infos[2] != infos[0] {
            rep.violation(&format!("stk.grow/stack-segments-restored/{pclass}"), format!("{}: the coroutine reported {} segment(s) before, {} after the first recursion, {} at the end", c.to_json(), infos[0], infos[1], infos[2]), replay());
            return;
        }
        rep.witness("coroutine_cases");
    } else {
        rep.witness("thread_cases");
    }
    if c.panic_left.is_some() {
        rep.witness("caught_panics");
    }
}

pub fn grow_cases(tier: &str) -> Vec<GrowCase> {
    let mut v = Vec::new();
    let depths: &[usize] = if tier == "thorough" { &[1, 10, 50, 200] } else { &[1, 10, 50] };
    for coroutine in [true, false] {
        for depth in depths {
            for frame_kb in [1usize, 10] {
                for (red_zone, stack_size) in [(0usize, 128 * 1024usize), (16 * 1024, 64 * 1024), (64 * 1024, 128 * 1024)] {
                    // the red zone the caller asks for must cover what its callback needs until
                    // the next growth point (its frame plus the harness' probe), and fit a segment
                    if frame_kb * 1024 + 5 * 1024 > red_zone.max(16 * 1024) || red_zone >= stack_size {
                        continue;
                    }
                    let mut pl = vec![None, Some(0), Some(*depth / 2), Some(*depth)];
                    pl.dedup();
                    for panic_left in pl {
                        // raising and unwinding a panic needs stack of its own (the unwinder's DWARF
                        // machinery): a caller whose callback may panic has to ask for that much more
                        if panic_left.is_some() && frame_kb * 1024 + 40 * 1024 > red_zone {
                            continue;
                        }
                        for comb in [false, true] {
                            v.push(GrowCase { coroutine, depth: *depth, frame_kb, red_zone, stack_size, panic_left, comb, catch_at: None });
                            // the same panic caught half way up (needs levels between the two)
                            if let Some(pl) = panic_left {
                                let k = (pl + *depth) / 2 + 1;
                                if k > pl && k <= *depth {
                                    v.push(GrowCase { coroutine, depth: *depth, frame_kb, red_zone, stack_size, panic_left, comb, catch_at: Some(k) });
                                }
                            }
                        }
                    }
                }
            }
        }
    }
    v
}

// ------------------------------------------------------------------------------------------
// C24

pub const FAULTS: [&str; 7] = ["null-read", "null-write", "write-to-address-1", "unbounded-recursion", "unbounded-recursion-inside-grown-segment", "write-to-address-1-inside-grown-segment", "null-read-inside-grown-segment"];

#[derive(Clone, Debug)]
pub struct FaultCase {
    fault: usize,
    suspends: usize,
    /// position of the faulty coroutine among the two healthy ones: 0, 1, 2
    position: usize,
    /// an older coroutine with a large stack is dropped after the faulty one was created and before it
    /// grows: the mapping of the grown segment then reuses that hole (it may lie ABOVE the initial stack)
    hole: bool,
}

impl FaultCase {
    fn to_json(&self) -> Value {
        json!({"fault": FAULTS[self.fault], "suspends_before_fault": self.suspends, "position_among_healthy": self.position, "older_coroutine_dropped_before_growth": self.hole})
    }
    fn from_json(v: &Value) -> Option<FaultCase> {
        Some(FaultCase { fault: FAULTS.iter().position(|x| Some(*x) == v.get("fault").and_then(Value::as_str))?, suspends: v.get("suspends_before_fault")?.as_u64()? as usize, position: v.get("position_among_healthy")?.as_u64()? as usize, hole: v.get("older_coroutine_dropped_before_growth").and_then(Value::as_bool).unwrap_or(false) })
    }
}

static TRAP_SP: AtomicU64 = AtomicU64::new(0);
static TRAP_INB: AtomicU64 = AtomicU64::new(9);

fn trap_observer(kind: &'static str, a: u64, b: u64) {
    // runs inside the signal handler: only atomics
    if kind.len() == 4 && kind.as_bytes()[0] == b't' {
        TRAP_SP.store(a, Ordering::SeqCst);
        TRAP_INB.store(b, Ordering::SeqCst);
    }
}

#[inline(never)]
fn dive(n: u64) -> u64 {
    let mut pad = [0u8; 512];
    pad[(n % 512) as usize] = 1;
    let _ = black_box(&mut pad);
    dive(n + 1) + u64::from(black_box(pad[0]))
}

pub fn exec_fault(c: &FaultCase, em: &mut Emitter) {
    std::panic::set_hook(Box::new(|_| {}));
    open_coroutine_core::verif::set_observe_hook(Some(trap_observer));
    // (created first, so its stack is mapped before - i.e. above - those of the scheduler's coroutines)
    let older: Option<SchedulableCoroutine<'static>> = if c.hole {
        Some(open_coroutine_core::co!(Some("c24-older".to_string()), |_: &Suspender<(), ()>, ()| Some(0), Some(512 * 1024)).expect("older"))
    } else {
        None
    };
    let mut sched = Scheduler::new("c24-sched".into(), 128 * 1024);
    let segs: Arc<Mutex<Vec<(usize, usize)>>> = Arc::new(Mutex::new(Vec::new()));
    let mut ids = Vec::new();
    let mut order: Vec<usize> = vec![1, 2];
    order.insert(c.position, 0);
    for who in order {
        if who == 0 {
            let (cc, sg) = (c.clone(), segs.clone());
            ids.push((0usize, sched.submit_co(move |s, ()| {
                for _ in 0..cc.suspends {
                    s.suspend();
                }
                let record = |sg: &Arc<Mutex<Vec<(usize, usize)>>>| {
                    let co = SchedulableCoroutine::current().expect("current");
                    *sg.lock().unwrap() = co.stack_infos().iter().map(|i| (i.stack_bottom, i.stack_top)).collect();
                };
                record(&sg);
                match FAULTS[cc.fault] {
                    "null-read" => unsafe {
                        let v = std::ptr::read_volatile(std::ptr::null::<u8>());
                        Some(usize::from(v))
                    },
                    "null-write" => unsafe {
                        std::ptr::write_volatile(std::ptr::null_mut::<u8>(), 1);
                        Some(1)
                    },
                    "write-to-address-1" => unsafe {
                        std::ptr::write_volatile(1 as *mut u8, 1);
                        Some(1)
                    },
                    "unbounded-recursion" => Some(dive(0) as usize),
                    _ => {
                        let sg2 = sg.clone();
                        // a red zone larger than the coroutine's own 128 KiB stack: the callback must move to a new segment
                        let r = SchedulableCoroutine::maybe_grow_with(256 * 1024, 512 * 1024, move || {
                            let co = SchedulableCoroutine::current().expect("current");
                            *sg2.lock().unwrap() = co.stack_infos().iter().map(|i| (i.stack_bottom, i.stack_top)).collect();
                            match FAULTS[cc.fault] {
                                "write-to-address-1-inside-grown-segment" => unsafe {
                                    std::ptr::write_volatile(1 as *mut u8, 1);
                                    1
                                },
                                "null-read-inside-grown-segment" => unsafe { usize::from(std::ptr::read_volatile(std::ptr::null::<u8>())) },
                                _ => dive(0) as usize,
                            }
                        });
                        r.ok()
                    }
                }
            }, None, None).expect("submit faulty")));
        } else {
            ids.push((who, sched.submit_co(move |s, ()| {
                let mut acc = who * 100;
                for k in 0..3 {
                    acc += k;
                    s.suspend();
                }
                Some(acc)
            }, None, None).expect("submit healthy")));
        }
    }
    drop(older);
    em.emit(json!({"t":"begin"}));
    let mut results: Vec<(usize, String)> = Vec::new();
    for _ in 0..6 {
        match sched.try_schedule() {
            Ok(rs) => {
                for (id, r) in rs {
                    let who = ids.iter().find(|(_, i)| *i == id).map_or(99, |(w, _)| *w);
                    results.push((who, match r { Ok(v) => format!("Ok({v:?})"), Err(m) => format!("Err({m})") }));
                }
            }
            Err(e) => results.push((98, format!("schedule error {e}"))),
        }
    }
    // the thread goes on: a fresh coroutine still works
    let mut fresh: SchedulableCoroutine<'static> = open_coroutine_core::co!(Some("c24-fresh".to_string()), |_: &Suspender<(), ()>, ()| Some(7), Some(64 * 1024)).expect("fresh");
    let fresh_state = fresh.resume().map(|s| crate::util::state_str(&s)).unwrap_or_else(|e| format!("Err({e})"));
    results.sort();
    let sp = TRAP_SP.load(Ordering::SeqCst) as usize;
    let inb_lib = TRAP_INB.load(Ordering::SeqCst);
    let inb_mine = segs.lock().unwrap().iter().any(|(b, t)| *b <= sp && sp < *t);
    let grown_above = {
        let g = segs.lock().unwrap();
        g.len() == 2 && g[1].0 > g[0].0
    };
    em.emit(json!({"t":"end","results":results.iter().map(|(w, r)| json!([w, r])).collect::<Vec<_>>(),"fresh":fresh_state,
        "trap_seen": inb_lib != 9, "sp_inside_recorded_segments": inb_mine, "library_said_in_bounds": inb_lib == 1, "segments": segs.lock().unwrap().len(),
        "grown_segment_above_the_initial_one": grown_above}));
    std::mem::forget(sched);
}

pub fn judge_fault(c: &FaultCase, res: &ChildResult, rep: &mut Report) {
    let replay = || json!({"engine":"seqx","scenario":"stk.fault","case":c.to_json()});
    let kind = FAULTS[c.fault];
    if !res.exit.ok() {
        rep.violation(&format!("stk.fault/thread-survives-the-fault/{kind}:{}", res.exit.describe()), format!("{}: the process {}", c.to_json(), res.exit.describe()), replay());
        return;
    }
    let Some(e) = res.last("end") else {
        rep.machinery_errors.push("stk.fault: no end record".into());
        return;
    };
    let _ = rep.nontrivial.insert(c.to_json().to_string());
    let results: Vec<(u64, String)> = e["results"].as_array().unwrap().iter().map(|r| (r[0].as_u64().unwrap(), r[1].as_str().unwrap().to_string())).collect();
    for who in [1u64, 2] {
        let want = format!("Ok(Some({}))", who * 100 + 3);
        let got: Vec<&String> = results.iter().filter(|(w, _)| *w == who).map(|(_, r)| r).collect();
        if got != vec![&want] {
            rep.violation(&format!("stk.fault/other-coroutines-continue-normally/{kind}"), format!("{}: healthy coroutine {who} ended with {got:?}, expected [{want}]", c.to_json()), replay());
            return;
        }
    }
    if e["fresh"] != "Complete(Some(7))" {
        rep.violation(&format!("stk.fault/thread-continues-normally/{kind}"), format!("{}: a coroutine created afterwards on the same thread ended in {}", c.to_json(), e["fresh"]), replay());
        return;
    }
    let faulty: Vec<&String> = results.iter().filter(|(w, _)| *w == 0).map(|(_, r)| r).collect();
    if faulty.len() != 1 || !faulty[0].starts_with("Err(") {
        rep.violation(&format!("stk.fault/fault-ends-coroutine-with-error/{kind}"), format!("{}: the faulting coroutine's result is {faulty:?}", c.to_json()), replay());
        return;
    }
    if e["trap_seen"] != true {
        rep.machinery_errors.push(format!("stk.fault: the trap observer saw nothing for {}", c.to_json()));
        return;
    }
    // reported as a stack overflow exactly when the faulting sp lies outside the segments
    let inside = e["sp_inside_recorded_segments"].as_bool().unwrap();
    let msg = &faulty[0][4..faulty[0].len() - 1];
    let want = if inside { "invalid memory reference" } else { "stack overflow" };
    if msg != want {
        rep.violation(&format!("stk.fault/overflow-reported-iff-sp-outside-segments/{kind}"), format!("{}: the faulting stack pointer was {} the coroutine's {} recorded segment(s), the error says \"{msg}\"", c.to_json(), if inside { "inside" } else { "outside" }, e["segments"]), replay());
        return;
    }
    // wild accesses at shallow depth are not overflows
    if (c.fault <= 2 || c.fault >= 5) && !inside {
        rep.machinery_errors.push(format!("stk.fault: a wild access was observed with sp outside the segments ({})", c.to_json()));
    }
    rep.witness(if inside { "faults_inside_segments" } else { "faults_outside_segments" });
    if c.fault >= 4 {
        if e["grown_segment_above_the_initial_one"] == true {
            rep.witness("faults_with_the_grown_segment_mapped_above_the_initial_one");
        }
        if e["segments"].as_u64() == Some(2) {
            rep.witness("faults_with_a_grown_segment");
        } else {
            rep.machinery_errors.push(format!("stk.fault: {}: the callback did not move to a new segment ({} segment(s))", c.to_json(), e["segments"]));
        }
    }
}

pub fn fault_cases() -> Vec<FaultCase> {
    let mut v = Vec::new();
    for fault in 0..FAULTS.len() {
        for suspends in 0..3 {
            for position in 0..3 {
                v.push(FaultCase { fault, suspends, position, hole: false });
                if fault >= 4 {
                    v.push(FaultCase { fault, suspends, position, hole: true });
                }
            }
        }
    }
    v
}

pub fn run(scen: &str, tier: &str, rep: &mut Report) -> bool {
    let cfg = RunCfg { hang_after: Duration::from_millis(8000), ..RunCfg::default() };
    let budget = Budget::secs(if tier == "thorough" { 900 } else { 50 });
    match scen {
        "stk.grow" => {
            let cs = grow_cases(tier);
            rep.bounds = json!({"callers": ["coroutine", "thread"], "depths": if tier == "thorough" { json!([1, 10, 50, 200]) } else { json!([1, 10, 50]) }, "frames_kb": [1, 10],
                "red_zone_stack_size": [["default", 131072], [16384, 65536], [65536, 131072]], "panic_points": ["none", "deepest", "middle", "first"], "then": "a second recursion of depth 50", "cases": cs.len()});
            rep.require(&["coroutine_cases", "thread_cases", "caught_panics", "panics_caught_inside_outer_growths"]);
            for c in cs.iter().step_by((cs.len() / 4).max(1)).take(4) {
                rep.sample(c.to_json());
            }
            sweep(&cs, 1, rep, &cfg, &budget, exec_grow, judge_grow);
        }
        "stk.fault" => {
            let cs = fault_cases();
            rep.bounds = json!({"faults": FAULTS, "suspends_before_fault": [0, 1, 2], "position_among_two_healthy_coroutines": [0, 1, 2], "cases": cs.len()});
            // (with the default stacks a real overflow faults in the guard page, which belongs to
            // the segment; a fault with the stack pointer outside every segment is not producible
            // by these bodies, so only the inside direction is required to have occurred)
            rep.require(&["faults_inside_segments", "faults_with_a_grown_segment", "faults_with_the_grown_segment_mapped_above_the_initial_one"]);
            for c in cs.iter().step_by((cs.len() / 4).max(1)).take(4) {
                rep.sample(c.to_json());
            }
            sweep(&cs, 1, rep, &cfg, &budget, exec_fault, judge_fault);
        }
        _ => return false,
    }
    rep.states = rep.evaluations;
    rep.transitions = rep.evaluations;
    true
}

pub fn replay(v: &Value, em: &mut Emitter) -> bool {
    if let Some(c) = v.get("case").and_then(GrowCase::from_json) {
        exec_grow(&c, em);
        return true;
    }
    if let Some(c) = v.get("case").and_then(FaultCase::from_json) {
        exec_fault(&c, em);
        return true;
    }
    false
}
