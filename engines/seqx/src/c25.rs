//! C25 – coroutine-local storage is private, map-like and released with the coroutine.
//! All put/get/get_mut/remove histories over 2 keys x 2 coroutines up to a depth, against a
//! HashMap reference; values carry a drop counter.
use crate::explore::{sweep, Budget};
use crate::report::Report;
use crate::runner::{ChildResult, Emitter, RunCfg};
use open_coroutine_core::scheduler::SchedulableCoroutine;
use serde_json::{json, Value};
use std::cell::RefCell;
use std::collections::HashMap;

thread_local! {
    static DROPS: RefCell<Vec<u32>> = const { RefCell::new(Vec::new()) };
}

struct Val {
    id: usize,
}

impl Val {
    fn new() -> Val {
        DROPS.with(|d| {
            let mut d = d.borrow_mut();
            d.push(0);
            Val { id: d.len() - 1 }
        })
    }
}

impl Drop for Val {
    fn drop(&mut self) {
        DROPS.with(|d| d.borrow_mut()[self.id] += 1);
    }
}

thread_local! {
    static ZDROPS: std::cell::Cell<(u32, u32)> = const { std::cell::Cell::new((0, 0)) }; // (created, dropped)
}

/// zero-sized value with a destructor
struct Z;

impl Z {
    fn new() -> Z {
        ZDROPS.with(|z| z.set((z.get().0 + 1, z.get().1)));
        Z
    }
}

impl Drop for Z {
    fn drop(&mut self) {
        ZDROPS.with(|z| z.set((z.get().0, z.get().1 + 1)));
    }
}

const NOPS: usize = 18;
const KEYS: [&str; 2] = ["a", "b"];
const KINDS: [&str; 4] = ["put", "get", "get_mut", "remove"];

/// op code: co*8 + key*4 + kind
fn op_name(op: u8) -> String {
    if op == 16 {
        return "put(co0,z,<zero-sized>)".into();
    }
    if op == 17 {
        return "remove(co0,z)".into();
    }
    format!("{}(co{},{})", KINDS[(op % 4) as usize], op / 8, KEYS[((op / 4) % 2) as usize])
}

fn hist_json(h: &[u8]) -> Value {
    json!(h.iter().map(|o| op_name(*o)).collect::<Vec<_>>())
}

/// Execute one history in-process; returns Err((clause, detail)) on the first oracle failure.
fn run_history(h: &[u8], unwind: bool) -> Result<(), (String, String)> {
    DROPS.with(|d| d.borrow_mut().clear());
    ZDROPS.with(|z| z.set((0, 0)));
    let mut z_stored = false;
    let mut cos: Vec<SchedulableCoroutine<'static>> = (0..2)
        .map(|i| {
            open_coroutine_core::co!(Some(format!("c25-{i}")), |_, ()| None, Some(16 * 1024)).expect("co")
        })
        .collect();
    let mut model: Vec<HashMap<&'static str, usize>> = vec![HashMap::new(), HashMap::new()];
    // ids whose one and only drop is due by now
    let mut dead: Vec<usize> = Vec::new();
    for (step, &op) in h.iter().enumerate() {
        let at = |what: &str| format!("step {step} {}: {what}", op_name(op));
        if op >= 16 {
            let had = if op == 16 { cos[0].put("z", Z::new()).is_some() } else { cos[0].remove::<Z>("z").is_some() };
            if had != z_stored {
                return Err(("put-returns-previous".into(), at(&format!("zero-sized value: previous value present = {had}, reference {z_stored}"))));
            }
            z_stored = op == 16;
            let (created, dropped) = ZDROPS.with(std::cell::Cell::get);
            let want = created - u32::from(z_stored);
            if dropped != want {
                return Err(("value-dropped-exactly-once".into(), at(&format!("{dropped} zero-sized values dropped, expected {want}"))));
            }
            continue;
        }
        let c = (op / 8) as usize;
        let key = KEYS[((op / 4) % 2) as usize];
        match op % 4 {
            0 => {
                let v = Val::new();
                let id = v.id;
                let got = cos[c].put(key, v).map(|old: Val| old.id);
                let want = model[c].insert(key, id);
                if got != want {
                    return Err(("put-returns-previous".into(), at(&format!("returned {got:?}, reference {want:?}"))));
                }
                if let Some(o) = want {
                    dead.push(o);
                }
            }
            1 => {
                let got = cos[c].get::<Val>(key).map(|v| v.id);
                let want = model[c].get(key).copied();
                if got != want {
                    return Err(("get-returns-latest".into(), at(&format!("returned {got:?}, reference {want:?}"))));
                }
            }
            2 => {
                let want = model[c].get(key).copied();
                match cos[c].get_mut::<Val>(key) {
                    Some(slot) => {
                        let got = Some(slot.id);
                        if got != want {
                            return Err(("get_mut-returns-latest".into(), at(&format!("returned {got:?}, reference {want:?}"))));
                        }
                        let nv = Val::new();
                        let nid = nv.id;
                        *slot = nv;
                        dead.push(want.unwrap());
                        let _ = model[c].insert(key, nid);
                    }
                    None => {
                        if want.is_some() {
                            return Err(("get_mut-returns-latest".into(), at(&format!("returned None, reference {want:?}"))));
                        }
                    }
                }
            }
            _ => {
                let got = cos[c].remove::<Val>(key).map(|v| v.id);
                let want = model[c].remove(key);
                if got != want {
                    return Err(("remove-returns-and-deletes".into(), at(&format!("returned {got:?}, reference {want:?}"))));
                }
                if let Some(o) = want {
                    dead.push(o);
                }
            }
        }
        // drop accounting after every step
        let bad = DROPS.with(|d| {
            let d = d.borrow();
            for (id, n) in d.iter().enumerate() {
                let want = u32::from(dead.contains(&id));
                if *n != want {
                    return Some((id, *n, want));
                }
            }
            None
        });
        if let Some((id, n, want)) = bad {
            return Err(("value-dropped-exactly-once".into(), at(&format!("value #{id} dropped {n} times, expected {want}"))));
        }
    }
    // dropping the coroutines must drop everything still stored
    let stored: Vec<usize> = model.iter().flat_map(|m| m.values().copied()).collect();
    if unwind {
        // the coroutines are dropped while their owner unwinds from a panic
        let owned = std::mem::take(&mut cos);
        let _ = std::panic::catch_unwind(std::panic::AssertUnwindSafe(move || {
            let _guard = owned;
            panic!("owner panics");
        }));
    } else {
        cos.clear();
    }
    let (zc, zd) = ZDROPS.with(std::cell::Cell::get);
    if zc != zd {
        return Err(("stored-values-dropped-with-coroutine".into(), format!("after dropping the coroutines{} {zd} of {zc} zero-sized values were dropped", if unwind { " (during unwinding)" } else { "" })));
    }
    let bad = DROPS.with(|d| {
        let d = d.borrow();
        for (id, n) in d.iter().enumerate() {
            if *n != 1 {
                return Some((id, *n));
            }
        }
        None
    });
    if let Some((id, n)) = bad {
        let clause = if stored.contains(&id) && n == 0 {
            "stored-values-dropped-with-coroutine"
        } else {
            "value-dropped-exactly-once"
        };
        return Err((clause.into(), format!("after dropping the coroutines{} value #{id} was dropped {n} times (still stored at drop: {stored:?})", if unwind { " (during unwinding)" } else { "" })));
    }
    Ok(())
}

#[derive(Clone)]
struct Case {
    prefix: Vec<u8>,
    depth: usize,
}

fn exec(case: &Case, em: &mut Emitter) {
    std::panic::set_hook(Box::new(|_| {}));
    // enumerate every completion of the prefix up to `depth`, shortest first
    let mut total = 0u64;
    let mut firsts: Vec<(String, String, Vec<u8>)> = Vec::new();
    for len in case.prefix.len()..=case.depth {
        let free = len - case.prefix.len();
        let n = NOPS.pow(free as u32);
        for mut code in 0..n {
            let mut h = case.prefix.clone();
            for _ in 0..free {
                h.push((code % NOPS) as u8);
                code /= NOPS;
            }
            for unwind in [false, true] {
                total += 1;
                if total % 1000 == 0 {
                    // a sign of life for the runner's hang detection
                    em.emit(json!({"t":"progress","histories":total}));
                }
                if let Err((clause, detail)) = run_history(&h, unwind) {
                    let clause = if unwind { format!("{clause}:during-unwind") } else { clause };
                    if !firsts.iter().any(|f| f.0 == clause) {
                        firsts.push((clause, detail, h.clone()));
                    }
                }
            }
        }
    }
    em.emit(json!({"t":"done","histories":total}));
    for (clause, detail, h) in firsts {
        em.emit(json!({"t":"viol","clause":clause,"detail":detail,"history":h}));
    }
}

pub fn run(tier: &str, rep: &mut Report) {
    let depth = if tier == "thorough" { 5 } else { 4 };
    // cases: the empty prefix covers lengths 0 and 1; every 2-op prefix covers lengths 2..=depth
    let mut cases = vec![Case { prefix: vec![], depth: 1 }];
    for a in 0..NOPS as u8 {
        for b in 0..NOPS as u8 {
            cases.push(Case { prefix: vec![a, b], depth });
        }
    }
    rep.bounds = json!({"coroutines":2,"keys":2,"ops":["put","get","get_mut","remove","put zero-sized","remove zero-sized"],"depth":depth,
        "drop_modes":["normal","while the owner unwinds from a panic"],
        "histories": (0..=depth).map(|d| 2 * (NOPS as u64).pow(d as u32)).sum::<u64>()});
    rep.require(&["histories_with_both_coroutines"]);
    let cfg = RunCfg::default();
    let budget = Budget::secs(if tier == "thorough" { 1500 } else { 45 });
    let mut hist_total = 0u64;
    sweep(&cases, 1, rep, &cfg, &budget, exec, |case, res: &ChildResult, rep| {
        if !res.exit.ok() {
            rep.violation(
                &format!("c25.local/process-died/{}", res.exit.describe()),
                format!("child {} while enumerating completions of {:?}", res.exit.describe(), hist_json(&case.prefix)),
                json!({"engine":"seqx","scenario":"c25.local","history":case.prefix}),
            );
            return;
        }
        if let Some(d) = res.last("done") {
            hist_total += d["histories"].as_u64().unwrap_or(0);
        }
        if case.prefix.len() == 2 && case.prefix[0] < 16 && case.prefix[1] < 16 && case.prefix[0] / 8 != case.prefix[1] / 8 {
            rep.witness("histories_with_both_coroutines");
        }
        for v in res.find("viol") {
            let h: Vec<u8> = v["history"].as_array().unwrap().iter().map(|x| x.as_u64().unwrap() as u8).collect();
            rep.violation(
                &format!("c25.local/{}/-", v["clause"].as_str().unwrap()),
                format!("{} ; history {}", v["detail"].as_str().unwrap(), hist_json(&h)),
                json!({"engine":"seqx","scenario":"c25.local","history":h}),
            );
        }
    });
    rep.sample(json!({"history": hist_json(&[0, 9, 2, 3]), "oracle": "every return value = HashMap reference; drop counters exact after every step and after dropping the coroutines"}));
    rep.sample(json!({"history": hist_json(&[4, 12, 6, 15, 0])}));
    rep.evaluations = hist_total;
    rep.states = hist_total;
    rep.transitions = hist_total.saturating_sub(1);
    for i in 0..hist_total.min(1000) {
        let _ = rep.nontrivial.insert(format!("h{i}"));
    }
    rep.notes.push("distinct_nontrivial is capped at 1000 for bookkeeping; every enumerated history is distinct by construction".into());
}

pub fn replay(v: &Value, em: &mut Emitter) -> bool {
    let Some(h) = v.get("history").and_then(Value::as_array) else { return false };
    let h: Vec<u8> = h.iter().filter_map(|x| x.as_u64().map(|x| x as u8)).collect();
    em.emit(json!({"t":"history","ops":hist_json(&h)}));
    std::panic::set_hook(Box::new(|_| {}));
    for unwind in [false, true] {
        match run_history(&h, unwind) {
            Ok(()) => em.emit(json!({"t":"ok","unwind":unwind})),
            Err((c, d)) => em.emit(json!({"t":"viol","unwind":unwind,"clause":c,"detail":d})),
        }
    }
    true
}
