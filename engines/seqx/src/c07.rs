//! C07 – coroutine lifecycle follows the documented state machine.
//! Explicit-state search whose transition function is the real coroutine: for every program
//! (body built from suspend/delay/syscall-state/cancel/panic/return steps) a BFS over driver
//! histories (resume, advance clock, running(), syscall(..)), dedup on (state, pc, clock).
//! The BFS for one program runs inside one forked child, every history on a fresh OS thread
//! (fresh thread-locals); the oracle reads the reports of a recording listener.
use crate::explore::{sweep, Budget};
use crate::report::Report;
use crate::runner::{ChildResult, Emitter, RunCfg};
use crate::util::state_str;
use open_coroutine_core::common::constants::{CoroutineState, SyscallName, SyscallState};
use open_coroutine_core::coroutine::listener::Listener;
use open_coroutine_core::coroutine::local::CoroutineLocal;
use open_coroutine_core::coroutine::suspender::Suspender;
use open_coroutine_core::scheduler::{SchedulableCoroutine, SchedulableCoroutineState};
use serde_json::{json, Value};
use std::collections::{HashSet, VecDeque};
use std::sync::atomic::{AtomicUsize, Ordering};
use std::sync::{Arc, Mutex};

pub const T0: u64 = 1000;

pub const STEPS: [&str; 9] = [
    "Suspend", "DelayPast", "DelayFuture", "SysEnter", "SysOther", "SysSuspendYield", "SysLeave", "Cancel", "Panic",
];
pub const OPS: [&str; 6] = ["Resume", "Advance", "Running", "SysTimeout", "SysCallback", "SysExec"];

pub type St = SchedulableCoroutineState;

#[derive(Debug, Clone)]
pub struct Rep {
    pub kind: &'static str,
    pub old: St,
    pub new: Option<St>,
    pub at: u64,
}

#[derive(Debug)]
pub struct Recorder(pub Arc<Mutex<Vec<Rep>>>);

impl Recorder {
    fn push(&self, kind: &'static str, old: St, new: Option<St>) {
        self.0.lock().unwrap().push(Rep { kind, old, new, at: open_coroutine_core::common::now() });
    }
}

impl Listener<(), Option<usize>> for Recorder {
    fn on_state_changed(&self, _: &CoroutineLocal, old: St, new: St) {
        self.push("changed", old, Some(new));
    }
    fn on_ready(&self, _: &CoroutineLocal, old: St) {
        self.push("ready", old, None);
    }
    fn on_running(&self, _: &CoroutineLocal, old: St) {
        self.push("running", old, None);
    }
    fn on_suspend(&self, _: &CoroutineLocal, old: St) {
        self.push("suspend", old, None);
    }
    fn on_syscall(&self, _: &CoroutineLocal, old: St) {
        self.push("syscall", old, None);
    }
    fn on_cancel(&self, _: &CoroutineLocal, old: St) {
        self.push("cancel", old, None);
    }
    fn on_complete(&self, _: &CoroutineLocal, old: St, _: Option<usize>) {
        self.push("complete", old, None);
    }
    fn on_error(&self, _: &CoroutineLocal, old: St, _: &str) {
        self.push("error", old, None);
    }
}

fn terminal(s: &St) -> bool {
    matches!(s, CoroutineState::Complete(_) | CoroutineState::Error(_) | CoroutineState::Cancelled)
}

/// Is old -> new (reported at time `at`) an edge of the documented graph?
pub fn edge_ok(old: &St, new: &St, at: u64) -> bool {
    use CoroutineState::*;
    match (old, new) {
        (Ready, Running) => true,
        (Running, Suspend(..) | Syscall(..) | Complete(_) | Error(_) | Cancelled) => true,
        (Syscall(_, _, _), Running) => true,
        (Syscall(_, a, _), Syscall(_, b, _)) => a == b,
        (Suspend(_, ts), Ready | Running) => *ts <= at,
        _ => false,
    }
}

fn specific_for(new: &St) -> &'static str {
    use CoroutineState::*;
    match new {
        Ready => "ready",
        Running => "running",
        Suspend(..) => "suspend",
        Syscall(..) => "syscall",
        Cancelled => "cancel",
        Complete(_) => "complete",
        Error(_) => "error",
    }
}

/// The report-list oracle shared by c07.raw and the scheduler-level scenario.
/// Returns Err((clause, detail)).
pub fn check_reports(reports: &[Rep], current: &St) -> Result<(), (String, String)> {
    let mut last: St = CoroutineState::Ready;
    let mut i = 0;
    while i < reports.len() {
        let r = &reports[i];
        if r.kind != "changed" {
            return Err(("each-change-reported-once-with-both-callbacks".into(), format!("report #{i}: callback on_{} without a preceding on_state_changed", r.kind)));
        }
        let new = r.new.unwrap();
        if terminal(&last) {
            return Err(("terminal-state-absorbing".into(), format!("report #{i}: {} -> {} after the terminal state {}", state_str(&r.old), state_str(&new), state_str(&last))));
        }
        if r.old != last {
            return Err(("old-state-is-previous-new-state".into(), format!("report #{i}: old state {} but the previous report ended in {}", state_str(&r.old), state_str(&last))));
        }
        if !edge_ok(&r.old, &new, r.at) {
            return Err((format!("edge-in-documented-graph:{}->{}", specific_for(&r.old), specific_for(&new)), format!("report #{i}: {} -> {} at t={} is not an edge of the documented graph", state_str(&r.old), state_str(&new), r.at)));
        }
        match reports.get(i + 1) {
            Some(s) if s.kind == specific_for(&new) && s.old == r.old => {}
            other => {
                return Err(("each-change-reported-once-with-both-callbacks".into(), format!("report #{i}: {} -> {} is not followed by on_{} (got {:?})", state_str(&r.old), state_str(&new), specific_for(&new), other.map(|o| o.kind))));
            }
        }
        last = new;
        i += 2;
    }
    if *current != last {
        return Err(("state-equals-last-report".into(), format!("state() is {} but the last reported state is {}", state_str(current), state_str(&last))));
    }
    Ok(())
}

/// A listener that panics in every callback; registered BEFORE the recorder it must not disturb.
#[derive(Debug)]
pub struct Panicker;

impl Listener<(), Option<usize>> for Panicker {
    fn on_state_changed(&self, _: &CoroutineLocal, _: St, _: St) {
        panic!("listener panics in on_state_changed");
    }
    fn on_ready(&self, _: &CoroutineLocal, _: St) {
        panic!("listener panics in on_ready");
    }
    fn on_running(&self, _: &CoroutineLocal, _: St) {
        panic!("listener panics in on_running");
    }
    fn on_suspend(&self, _: &CoroutineLocal, _: St) {
        panic!("listener panics in on_suspend");
    }
    fn on_syscall(&self, _: &CoroutineLocal, _: St) {
        panic!("listener panics in on_syscall");
    }
    fn on_cancel(&self, _: &CoroutineLocal, _: St) {
        panic!("listener panics in on_cancel");
    }
    fn on_complete(&self, _: &CoroutineLocal, _: St, _: Option<usize>) {
        panic!("listener panics in on_complete");
    }
    fn on_error(&self, _: &CoroutineLocal, _: St, _: &str) {
        panic!("listener panics in on_error");
    }
}

pub struct Built {
    pub co: SchedulableCoroutine<'static>,
    pub pc: Arc<AtomicUsize>,
    pub reports: Arc<Mutex<Vec<Rep>>>,
}

/// Build the coroutine for `prog`. Each executed step bumps `pc` first.
pub fn build(prog: &[usize], name: &str, ret: usize, panicker: bool) -> Built {
    let pc = Arc::new(AtomicUsize::new(0));
    let reports = Arc::new(Mutex::new(Vec::new()));
    let p = prog.to_vec();
    let pcc = pc.clone();
    let mut co: SchedulableCoroutine<'static> = open_coroutine_core::co!(
        Some(name.to_string()),
        move |s: &Suspender<(), ()>, ()| {
            for st in &p {
                let _ = pcc.fetch_add(1, Ordering::SeqCst);
                let now = open_coroutine_core::common::now();
                let me = || SchedulableCoroutine::current().expect("current coroutine");
                match STEPS[*st] {
                    "Suspend" => s.suspend(),
                    "DelayPast" => s.until(now.saturating_sub(1)),
                    "DelayFuture" => s.until(now + 5),
                    "SysEnter" => {
                        let _ = me().syscall((), SyscallName::sleep, SyscallState::Executing);
                    }
                    "SysOther" => {
                        let _ = me().syscall((), SyscallName::read, SyscallState::Executing);
                    }
                    "SysSuspendYield" => {
                        // what EventLoop::wait_just does
                        if let CoroutineState::Syscall((), n, SyscallState::Executing) = me().state() {
                            let _ = me().syscall((), n, SyscallState::Suspend(now + 5));
                        }
                        s.until(now + 5);
                        if let CoroutineState::Syscall((), n, SyscallState::Callback | SyscallState::Timeout) = me().state() {
                            let _ = me().syscall((), n, SyscallState::Executing);
                        }
                    }
                    "SysLeave" => {
                        let _ = me().running();
                    }
                    "Cancel" => s.cancel(),
                    "Panic" => panic!("boom"),
                    _ => unreachable!(),
                }
            }
            let _ = pcc.fetch_add(100, Ordering::SeqCst);
            Some(ret)
        },
        Some(64 * 1024)
    )
    .expect("create coroutine");
    if panicker {
        co.add_listener(Panicker);
    }
    co.add_listener(Recorder(reports.clone()));
    Built { co, pc, reports }
}

struct Outcome {
    key: String,
    viol: Option<(String, String)>,
    ill_formed: bool,
}

/// Replay one driver history on a fresh coroutine (on the calling, fresh thread).
fn run_history(prog: &[usize], hist: &[usize], panicker: bool) -> Outcome {
    open_coroutine_core::verif::clock_enable(T0);
    let mut b = build(prog, "c07", 7, panicker);
    let mut viol = None;
    let mut term_seen: Option<(St, usize, usize)> = None; // (state, pc, #reports) at the terminal state
    let mut ill_formed = false;
    for (k, op) in hist.iter().enumerate() {
        let before_state = b.co.state();
        let before_reports = b.reports.lock().unwrap().len();
        let before_pc = b.pc.load(Ordering::SeqCst);
        let res: Result<String, String> = match OPS[*op] {
            "Resume" => match std::panic::catch_unwind(std::panic::AssertUnwindSafe(|| b.co.resume())) {
                Ok(Ok(s)) => Ok(state_str(&s)),
                Ok(Err(e)) => Err(e.to_string()),
                Err(_) => {
                    viol = Some(("panic-unwound-into-caller".to_string(), format!("op #{k} Resume unwound")));
                    break;
                }
            },
            "Advance" => {
                open_coroutine_core::verif::clock_set(open_coroutine_core::common::now() + 10);
                Ok("-".into())
            }
            "Running" => b.co.running().map(|()| "-".to_string()).map_err(|e| e.to_string()),
            "SysTimeout" => b.co.syscall((), SyscallName::sleep, SyscallState::Timeout).map(|()| "-".to_string()).map_err(|e| e.to_string()),
            "SysCallback" => b.co.syscall((), SyscallName::sleep, SyscallState::Callback).map(|()| "-".to_string()).map_err(|e| e.to_string()),
            "SysExec" => b.co.syscall((), SyscallName::sleep, SyscallState::Executing).map(|()| "-".to_string()).map_err(|e| e.to_string()),
            _ => unreachable!(),
        };
        let reports = b.reports.lock().unwrap().clone();
        let state = b.co.state();
        let at = |w: String| format!("after op #{k} {}: {w}", OPS[*op]);
        if let Err((c, d)) = check_reports(&reports, &state) {
            viol = Some((c, at(d)));
            break;
        }
        // a refused direct state call changes nothing (a refused *resume* may legitimately have
        // run the body first: e.g. a body that returns while still in a Syscall state makes the
        // final Syscall -> Complete transition fail, which is the graph being enforced)
        if OPS[*op] != "Resume" && res.is_err() && (state != before_state || reports.len() != before_reports) {
            viol = Some(("refused-call-changes-nothing".into(), at(format!("the call was refused ({}) but state went {} -> {} and {} reports were added", res.unwrap_err(), state_str(&before_state), state_str(&state), reports.len() - before_reports))));
            break;
        }
        if let Some((ts, tpc, tn)) = &term_seen {
            if state != *ts || b.pc.load(Ordering::SeqCst) != *tpc || reports.len() != *tn {
                viol = Some(("terminal-state-absorbing".into(), at(format!("finished in {} (pc {tpc}, {tn} reports) but now state {} pc {} reports {}", state_str(ts), state_str(&state), b.pc.load(Ordering::SeqCst), reports.len()))));
                break;
            }
            if OPS[*op] == "Resume" {
                let ok = match ts {
                    CoroutineState::Cancelled => res.is_err() || res.as_deref() == Ok("Cancelled"),
                    t => res.as_deref() == Ok(state_str(t).as_str()),
                };
                if !ok {
                    viol = Some(("terminal-state-absorbing".into(), at(format!("resume of a coroutine finished in {} returned {res:?}", state_str(ts)))));
                    break;
                }
            }
        } else if terminal(&state) {
            term_seen = Some((state, b.pc.load(Ordering::SeqCst), reports.len()));
        } else if OPS[*op] == "Resume" && res.is_err() && b.pc.load(Ordering::SeqCst) > before_pc {
            // the body ran to its end (or panicked) in a state from which Complete/Error is not
            // an edge: an ill-formed program (it entered a syscall state and never left it).
            // Nothing in C07 speaks about what happens next; do not explore further.
            ill_formed = true;
            break;
        }
    }
    let key = format!(
        "{}|pc{}|t{}",
        state_str(&b.co.state()),
        b.pc.load(Ordering::SeqCst),
        open_coroutine_core::common::now() - T0
    );
    // an unfinished coroutine is simply dropped
    Outcome { key, viol, ill_formed }
}

#[derive(Clone, Debug)]
pub struct Case {
    prog: Vec<usize>,
    depth: usize,
    /// a listener that panics in every callback is registered before the recording one
    panicker: bool,
}

fn prog_json(p: &[usize]) -> Value {
    json!(p.iter().map(|s| STEPS[*s]).collect::<Vec<_>>())
}

fn hist_json(h: &[usize]) -> Value {
    json!(h.iter().map(|s| OPS[*s]).collect::<Vec<_>>())
}

fn on_fresh_thread<T: Send, F: FnOnce() -> T + Send>(f: F) -> T {
    std::thread::scope(|sc| {
        std::thread::Builder::new()
            .stack_size(1 << 20)
            .spawn_scoped(sc, f)
            .expect("spawn")
            .join()
            .expect("history thread panicked")
    })
}

fn exec(case: &Case, em: &mut Emitter) {
    std::panic::set_hook(Box::new(|_| {}));
    let mut seen: HashSet<String> = HashSet::new();
    let mut frontier: VecDeque<Vec<usize>> = VecDeque::from([vec![]]);
    let (mut states, mut transitions, mut execs) = (0u64, 0u64, 0u64);
    let mut sigs: Vec<String> = Vec::new();
    let mut keys: Vec<String> = Vec::new();
    let mut ill = 0u64;
    while let Some(h) = frontier.pop_front() {
        em.emit(json!({"t":"at","h":h}));
        let out = on_fresh_thread(|| run_history(&case.prog, &h, case.panicker));
        execs += 1;
        if !h.is_empty() {
            transitions += 1;
        }
        if let Some((clause, detail)) = out.viol {
            if !sigs.contains(&clause) {
                sigs.push(clause.clone());
                em.emit(json!({"t":"viol","clause":clause,"detail":detail,"history":h}));
            }
            continue;
        }
        if out.ill_formed {
            ill += 1;
            continue;
        }
        if seen.insert(out.key.clone()) {
            states += 1;
            keys.push(out.key);
            if h.len() < case.depth {
                for op in 0..OPS.len() {
                    let mut n = h.clone();
                    n.push(op);
                    frontier.push_back(n);
                }
            }
        }
    }
    em.emit(json!({"t":"done","states":states,"transitions":transitions,"execs":execs,"keys":keys,"ill_formed":ill}));
}

fn programs(max_len: usize) -> Vec<Vec<usize>> {
    let mut out: Vec<Vec<usize>> = vec![vec![]];
    let mut level: Vec<Vec<usize>> = vec![vec![]];
    for _ in 0..max_len {
        let mut next = Vec::new();
        for p in &level {
            if p.last().is_some_and(|s| matches!(STEPS[*s], "Cancel" | "Panic")) {
                continue;
            }
            for s in 0..STEPS.len() {
                let mut q = p.clone();
                q.push(s);
                next.push(q);
            }
        }
        out.extend(next.iter().cloned());
        level = next;
    }
    out
}

pub fn run(tier: &str, rep: &mut Report) {
    let (plen, depth) = if tier == "thorough" { (3, 6) } else { (2, 5) };
    let mut cases: Vec<Case> = programs(plen).into_iter().map(|prog| Case { prog, depth, panicker: false }).collect();
    // the same programs with a panicking listener in front of the recording one (shallower)
    let with_panicker: Vec<Case> = programs(plen).into_iter().map(|prog| Case { prog, depth: depth - 1, panicker: true }).collect();
    cases.extend(with_panicker);
    rep.bounds = json!({"program_steps": STEPS, "program_len": format!("<= {plen}"), "driver_ops": OPS,
        "driver_depth": depth, "programs": cases.len(), "dedup_key": "(state(), body pc, virtual clock)",
        "listeners": "recording listener alone, and behind a listener that panics in every callback"});
    rep.require(&["programs_reaching_syscall_state", "programs_reaching_terminal_state"]);
    let cfg = RunCfg::default();
    let budget = Budget::secs(if tier == "thorough" { 1500 } else { 45 });
    let (mut st, mut tr, mut ex) = (0u64, 0u64, 0u64);
    sweep(&cases, 1, rep, &cfg, &budget, exec, |case, res: &ChildResult, rep| {
        if !res.exit.ok() {
            let at = res.last("at").map(|a| a["h"].clone()).unwrap_or(json!([]));
            let h: Vec<usize> = at.as_array().map(|a| a.iter().map(|x| x.as_u64().unwrap() as usize).collect()).unwrap_or_default();
            rep.violation(
                &format!("c07.raw/process-died/{}", res.exit.describe()),
                format!("program {} driver history {}: child {}", prog_json(&case.prog), hist_json(&h), res.exit.describe()),
                json!({"engine":"seqx","scenario":"c07.raw","program":case.prog,"history":h,"panicker":case.panicker}),
            );
            return;
        }
        for v in res.find("viol") {
            let h: Vec<usize> = v["history"].as_array().unwrap().iter().map(|x| x.as_u64().unwrap() as usize).collect();
            rep.violation(
                &format!("c07.raw/{}/{}", v["clause"].as_str().unwrap(), if case.panicker { "behind-panicking-listener" } else { "-" }),
                format!("program {} driver history {}{}: {}", prog_json(&case.prog), hist_json(&h), if case.panicker { " (a listener that panics in every callback is registered first)" } else { "" }, v["detail"].as_str().unwrap()),
                json!({"engine":"seqx","scenario":"c07.raw","program":case.prog,"history":h,"panicker":case.panicker}),
            );
        }
        if let Some(d) = res.last("done") {
            st += d["states"].as_u64().unwrap();
            tr += d["transitions"].as_u64().unwrap();
            ex += d["execs"].as_u64().unwrap();
            rep.witness_n("histories_pruned_as_ill_formed_program", d["ill_formed"].as_u64().unwrap_or(0));
            let keys: Vec<String> = d["keys"].as_array().unwrap().iter().map(|k| k.as_str().unwrap().to_string()).collect();
            if keys.iter().any(|k| k.starts_with("Syscall")) {
                rep.witness("programs_reaching_syscall_state");
            }
            if keys.iter().any(|k| k.starts_with("Complete") || k.starts_with("Error") || k.starts_with("Cancelled")) {
                rep.witness("programs_reaching_terminal_state");
            }
            for k in &keys {
                let _ = rep.outcomes.insert(k.clone());
            }
            if case.prog.len() >= 2 && rep.nontrivial.len() < 5000 {
                for k in keys {
                    let _ = rep.nontrivial.insert(format!("{:?}/{k}", case.prog));
                }
            }
            if rep.samples.len() < 3 && case.prog.len() == 2 {
                rep.sample(json!({"program": prog_json(&case.prog), "reachable_states": d["keys"]}));
            }
        }
    });
    rep.evaluations = ex;
    rep.states = st;
    rep.transitions = tr;
}

pub fn replay(v: &Value, em: &mut Emitter) -> bool {
    let (Some(p), Some(h)) = (v.get("program").and_then(Value::as_array), v.get("history").and_then(Value::as_array)) else {
        return false;
    };
    let p: Vec<usize> = p.iter().filter_map(|x| x.as_u64().map(|x| x as usize)).collect();
    let h: Vec<usize> = h.iter().filter_map(|x| x.as_u64().map(|x| x as usize)).collect();
    em.emit(json!({"t":"program","steps":prog_json(&p),"driver":hist_json(&h)}));
    std::panic::set_hook(Box::new(|_| {}));
    let out = run_history(&p, &h, v.get("panicker").and_then(Value::as_bool).unwrap_or(false));
    em.emit(json!({"t":"end","key":out.key,"violation":out.viol.map(|(c, d)| json!({"clause":c,"detail":d}))}));
    true
}
