//! C28 – time and slicing helpers never overflow or loop.
//! Small-scope exhaustive + boundary alphabet, in-process (one child per group so that a panic,
//! abort or endless loop is an attributable observation).
use crate::explore::{sweep, Budget};
use crate::report::Report;
use crate::runner::{ChildResult, Emitter, RunCfg};
use open_coroutine_core::common::{get_slices, get_timeout_time};
use serde_json::{json, Value};
use std::time::Duration;

#[derive(Clone, Debug)]
enum Case {
    /// every total in 0..=64 ns for this slice (ns)
    SlicesSmall(u64),
    /// (total ns, slice ns)
    Slices(u128, u64),
    /// (virtual now, duration as (secs, nanos))
    Timeout(u64, u64, u32),
    /// (tv_sec, tv_usec, which: 0 = SO_RCVTIMEO, 1 = SO_SNDTIMEO)
    TimeLimit(i64, i64, u8),
}

fn dur_from_ns(ns: u128) -> Duration {
    Duration::new((ns / 1_000_000_000) as u64, (ns % 1_000_000_000) as u32)
}

fn check_slices(total: Duration, slice: Duration) -> Result<usize, String> {
    let v = get_slices(total, slice);
    let sum: u128 = v.iter().map(Duration::as_nanos).sum();
    if sum != total.as_nanos() {
        return Err(format!("pieces sum to {sum} ns, total is {} ns", total.as_nanos()));
    }
    if let Some(p) = v.iter().find(|p| **p > slice) {
        return Err(format!("piece {p:?} exceeds the slice {slice:?}"));
    }
    if v.iter().any(|p| p.is_zero()) {
        return Err("a zero-length piece".into());
    }
    let want = total.as_nanos().div_ceil(slice.as_nanos());
    if v.len() as u128 != want {
        return Err(format!("{} pieces, expected ceil(total/slice) = {want}", v.len()));
    }
    Ok(v.len())
}

fn exec(case: &Case, em: &mut Emitter) {
    match case {
        Case::SlicesSmall(slice) => {
            let mut n = 0;
            for total in 0..=64u64 {
                n += 1;
                if let Err(e) = check_slices(Duration::from_nanos(total), Duration::from_nanos(*slice)) {
                    em.emit(json!({"t":"viol","clause":"slices-partition-total","detail":format!("get_slices({total}ns, {slice}ns): {e}"),
                        "case":{"kind":"slices","total_ns":total.to_string(),"slice_ns":slice}}));
                    break;
                }
            }
            em.emit(json!({"t":"done","n":n}));
        }
        Case::Slices(total, slice) => {
            em.emit(json!({"t":"begin"}));
            match check_slices(dur_from_ns(*total), Duration::from_nanos(*slice)) {
                Ok(k) => em.emit(json!({"t":"done","n":1,"pieces":k})),
                Err(e) => em.emit(json!({"t":"viol","clause":"slices-partition-total","detail":format!("get_slices({total}ns, {slice}ns): {e}"),
                    "case":{"kind":"slices","total_ns":total.to_string(),"slice_ns":slice}})),
            }
        }
        Case::Timeout(now, secs, nanos) => {
            open_coroutine_core::verif::clock_enable(*now);
            let d = Duration::new(*secs, *nanos);
            let got = get_timeout_time(d);
            let want = u64::try_from((*now as u128) + d.as_nanos()).unwrap_or(u64::MAX);
            if got == want {
                em.emit(json!({"t":"done","n":1}));
            } else {
                em.emit(json!({"t":"viol","clause":"deadline-saturates","detail":format!("get_timeout_time({d:?}) at now={now} returned {got}, expected min(u64::MAX, now+d) = {want}"),
                    "case":{"kind":"timeout","now":now.to_string(),"secs":secs.to_string(),"nanos":nanos}}));
            }
        }
        Case::TimeLimit(sec, usec, which) => unsafe {
            let mut fds = [0; 2];
            assert_eq!(0, libc::socketpair(libc::AF_UNIX, libc::SOCK_STREAM, 0, fds.as_mut_ptr()));
            let tv = libc::timeval { tv_sec: *sec, tv_usec: *usec };
            let name = if *which == 0 { libc::SO_RCVTIMEO } else { libc::SO_SNDTIMEO };
            em.emit(json!({"t":"begin"}));
            let r = open_coroutine_core::syscall::setsockopt(
                None,
                fds[0],
                libc::SOL_SOCKET,
                name,
                std::ptr::from_ref(&tv).cast(),
                size_of::<libc::timeval>() as libc::socklen_t,
            );
            let errno = std::io::Error::last_os_error().raw_os_error().unwrap_or(0);
            if r != 0 {
                // the kernel rejected the value: nothing to compare
                em.emit(json!({"t":"done","n":1,"rejected":errno}));
                return;
            }
            let applied = if *which == 0 {
                open_coroutine_core::syscall::recv_time_limit(fds[0])
            } else {
                open_coroutine_core::syscall::send_time_limit(fds[0])
            };
            // expected from the value the caller set: saturating ns, 0 => unlimited. (The kernel may
            // round the stored value up to its tick; C28 is about the arithmetic, not the rounding.)
            let ns = (u128::try_from(*sec).unwrap_or(0)) * 1_000_000_000 + (u128::try_from(*usec).unwrap_or(0)) * 1_000;
            let want = if ns == 0 { u64::MAX } else { u64::try_from(ns).unwrap_or(u64::MAX) };
            if applied == want {
                em.emit(json!({"t":"done","n":1}));
            } else {
                em.emit(json!({"t":"viol","clause":"time-limit-saturates-zero-unlimited","detail":format!("timeval{{{sec},{usec}}} accepted by the kernel: applied limit {applied}, expected {want}"),
                    "case":{"kind":"timelimit","sec":sec.to_string(),"usec":usec.to_string(),"which":which}}));
            }
        },
    }
}

fn case_json(c: &Case) -> Value {
    match c {
        Case::SlicesSmall(s) => json!({"kind":"slices_small","slice_ns":s}),
        Case::Slices(t, s) => json!({"kind":"slices","total_ns":t.to_string(),"slice_ns":s}),
        Case::Timeout(n, s, ns) => json!({"kind":"timeout","now":n.to_string(),"secs":s.to_string(),"nanos":ns}),
        Case::TimeLimit(s, u, w) => json!({"kind":"timelimit","sec":s.to_string(),"usec":u.to_string(),"which":w}),
    }
}

fn case_from_json(v: &Value) -> Option<Case> {
    let g = |k: &str| v.get(k).and_then(|x| x.as_str().map(str::to_string).or_else(|| x.as_u64().map(|n| n.to_string())));
    match v.get("kind")?.as_str()? {
        "slices_small" => Some(Case::SlicesSmall(g("slice_ns")?.parse().ok()?)),
        "slices" => Some(Case::Slices(g("total_ns")?.parse().ok()?, g("slice_ns")?.parse().ok()?)),
        "timeout" => Some(Case::Timeout(g("now")?.parse().ok()?, g("secs")?.parse().ok()?, g("nanos")?.parse().ok()?)),
        "timelimit" => Some(Case::TimeLimit(g("sec")?.parse().ok()?, g("usec")?.parse().ok()?, g("which")?.parse().ok()?)),
        _ => None,
    }
}

pub fn run(tier: &str, rep: &mut Report) {
    let mut cases = Vec::new();
    for s in 1..=8u64 {
        cases.push(Case::SlicesSmall(s));
    }
    for slice in [1u64, 10_000_000, 1_000_000_000] {
        let s = slice as u128;
        for total in [s - 1, s, s + 1, 2 * s, 2 * s + 1, 1000 * s, 1000 * s + 1] {
            cases.push(Case::Slices(total, slice));
        }
    }
    if tier == "thorough" {
        for slice in [2u64, 3, 7, 999_999_999] {
            let s = slice as u128;
            for total in [s - 1, s, s + 1, 2 * s, 1000 * s + 1, 12345 * s + 17] {
                cases.push(Case::Slices(total, slice));
            }
        }
    }
    let durs: Vec<(u64, u32)> = vec![
        (0, 0),
        (0, 1),
        ((u64::MAX - 1) / 1_000_000_000, ((u64::MAX - 1) % 1_000_000_000) as u32),
        (u64::MAX / 1_000_000_000, (u64::MAX % 1_000_000_000) as u32),
        (u64::MAX / 1_000_000_000, (u64::MAX % 1_000_000_000) as u32 + 1),
        (u64::MAX / 1_000_000_000 + 1, 0),
        (u64::MAX, 999_999_999),
    ];
    for now in [0u64, 1, 1_700_000_000_000_000_000, u64::MAX - 1, u64::MAX] {
        for (s, n) in &durs {
            cases.push(Case::Timeout(now, *s, *n));
        }
    }
    for which in [0u8, 1] {
        for sec in [0i64, 1, 18_446_744_073, 18_446_744_074, i64::MAX / 1_000_000, i64::MAX, -1] {
            for usec in [0i64, 1, 999_999, 1_000_000, -1] {
                cases.push(Case::TimeLimit(sec, usec, which));
            }
        }
    }
    rep.bounds = json!({"get_slices":"every total 0..=64ns x slice 1..=8ns; boundary totals for slices 1ns,10ms,1s",
        "get_timeout_time":"now in {0,1,1.7e18,MAX-1,MAX} x 7 durations around u64::MAX ns",
        "time_limit":"tv_sec in {0,1,18446744073,18446744074,i64::MAX/1e6,i64::MAX,-1} x tv_usec in {0,1,999999,1000000,-1} x {RCV,SND}",
        "cases": cases.len()});
    for c in cases.iter().step_by(cases.len() / 5) {
        rep.sample(case_json(c));
    }
    let cfg = RunCfg { hang_after: Duration::from_millis(3000), ..RunCfg::default() };
    let budget = Budget::secs(if tier == "thorough" { 600 } else { 45 });
    let mut n_total = 0u64;
    sweep(&cases, 1, rep, &cfg, &budget, exec, |case, res: &ChildResult, rep| {
        let cj = case_json(case);
        let _ = rep.nontrivial.insert(cj.to_string());
        if !res.exit.ok() {
            let clause = match case {
                Case::Slices(..) | Case::SlicesSmall(..) => "slices-terminates-without-panic",
                Case::Timeout(..) => "deadline-computed-without-panic",
                Case::TimeLimit(..) => "time-limit-computed-without-panic",
            };
            let class = match case {
                Case::TimeLimit(s, u, _) => format!("{}{}", if *s < 0 { "negative-sec" } else { "sec-ok" }, if *u < 0 { "-negative-usec" } else { "" }),
                _ => "-".into(),
            };
            rep.violation(
                &format!("c28.helpers/{clause}/{}:{class}", res.exit.describe()),
                format!("{cj}: child {}", res.exit.describe()),
                json!({"engine":"seqx","scenario":"c28.helpers","case":cj}),
            );
            return;
        }
        if let Some(d) = res.last("done") {
            n_total += d["n"].as_u64().unwrap_or(0);
        }
        for v in res.find("viol") {
            rep.violation(
                &format!("c28.helpers/{}/-", v["clause"].as_str().unwrap()),
                v["detail"].as_str().unwrap().to_string(),
                json!({"engine":"seqx","scenario":"c28.helpers","case":v["case"]}),
            );
        }
    });
    rep.evaluations = n_total;
    rep.states = n_total;
    rep.transitions = n_total;
}

pub fn replay(v: &Value, em: &mut Emitter) -> bool {
    match v.get("case").and_then(case_from_json) {
        Some(c) => {
            exec(&c, em);
            true
        }
        None => false,
    }
}
