//! Pool-level explicit-state exploration on real `CoroutinePool`s under a virtual clock
//! (C01 pool layer, C02 cross-pool, C05 pool order, C11, C12, C13 deterministic part).
//!
//! A small-capacity global task queue is installed through the public `BeanFactory` before the
//! pools are created, so that overflow and stealing happen with a handful of tasks. One driver
//! thread plays every event loop (one pool per loop, sharing the global queue).
use crate::explore::{sweep, Budget};
use crate::report::Report;
use crate::runner::{ChildResult, Emitter, RunCfg};
use open_coroutine_core::co_pool::task::Task;
use open_coroutine_core::co_pool::CoroutinePool;
use open_coroutine_core::common::beans::BeanFactory;
use open_coroutine_core::common::constants::{PoolState, COROUTINE_GLOBAL_QUEUE_BEAN, TASK_GLOBAL_QUEUE_BEAN};
use open_coroutine_core::common::now;
use open_coroutine_core::common::ordered_work_steal::OrderedWorkStealQueue;
use open_coroutine_core::scheduler::{SchedulableCoroutine, SchedulableSuspender};
use serde_json::{json, Value};
use std::collections::{HashSet, VecDeque};
use std::sync::atomic::{AtomicU64, Ordering};
use std::sync::{Arc, Mutex};
use std::time::Duration;

const T0: u64 = 1_000_000_000_000;
const MS: u64 = 1_000_000;
static UNIQ: AtomicU64 = AtomicU64::new(0);

/// task programs
pub const PROGS: [&str; 13] = ["Return", "Panic", "PanicFmt", "Suspend", "Delay5", "CancelSelf", "CancelPrev", "Delay5x2", "SubmitInside", "JoinNext", "Delay100", "JoinSkipShort", "WaitOtherPool"];

/// addresses of the pools of the history that is running (a task body may have to talk to ANOTHER pool)
static POOL_PTRS: Mutex<Vec<usize>> = Mutex::new(Vec::new());

#[derive(Clone, Debug, PartialEq, Eq)]
pub enum Op {
    Submit { p: usize, prog: usize, prio: i64 },
    Pass(usize),
    Adv(u64),
    Cancel(usize),
    Wait { p: usize, t: usize },
    /// drive every pool to quiescence (as their loop threads would), then wait without timeout
    Join { p: usize, t: usize },
    Stop(usize),
    /// disown the result of a task (what dropping its JoinHandle does)
    Clean(usize),
    /// submit a new task under the NAME (hence id) of an earlier task that is gone
    Resubmit(usize),
    /// try to create a worker coroutine with an unsatisfiable stack size
    SubmitCoBad(usize),
    /// hand a plain coroutine (not a task) to the pool through the public submit_co
    SubmitCo(usize),
    /// from now on only this pool's thread gets to schedule for a while (the others are busy
    /// elsewhere): whatever has not started yet must be found and run by this pool
    Solo(usize),
}

fn is_submit(o: &Op) -> bool {
    matches!(o, Op::Submit { .. } | Op::Resubmit(_))
}

impl Op {
    pub fn to_json(&self) -> Value {
        match self {
            Op::Submit { p, prog, prio } => json!(format!("submit(P{p},{},prio {prio})", PROGS[*prog])),
            Op::Pass(p) => json!(format!("pass(P{p})")),
            Op::Adv(ms) => json!(format!("advance({ms}ms)")),
            Op::Cancel(t) => json!(format!("cancel(T{t})")),
            Op::Wait { p, t } => json!(format!("wait(P{p},T{t},5ms)")),
            Op::Join { p, t } => json!(format!("join(P{p},T{t})")),
            Op::Stop(p) => json!(format!("stop(P{p},50ms)")),
            Op::Clean(t) => json!(format!("clean(T{t})")),
            Op::Resubmit(t) => json!(format!("resubmit-name-of(T{t})")),
            Op::SubmitCoBad(p) => json!(format!("submit_co-huge-stack(P{p})")),
            Op::SubmitCo(p) => json!(format!("submit_co(P{p})")),
            Op::Solo(p) => json!(format!("only-P{p}-keeps-scheduling")),
        }
    }
    pub fn from_json(v: &Value) -> Option<Op> {
        let s = v.as_str()?;
        let inner = |pre: &str| s.strip_prefix(pre).map(|r| r.trim_end_matches(')').to_string());
        if let Some(r) = inner("submit(P") {
            let parts: Vec<&str> = r.split(',').collect();
            return Some(Op::Submit { p: parts[0].parse().ok()?, prog: PROGS.iter().position(|x| *x == parts[1])?, prio: parts[2].strip_prefix("prio ")?.parse().ok()? });
        }
        if let Some(r) = inner("pass(P") {
            return Some(Op::Pass(r.parse().ok()?));
        }
        if let Some(r) = inner("advance(") {
            return Some(Op::Adv(r.trim_end_matches("ms").parse().ok()?));
        }
        if let Some(r) = inner("cancel(T") {
            return Some(Op::Cancel(r.parse().ok()?));
        }
        if let Some(r) = inner("wait(P") {
            let parts: Vec<&str> = r.split(',').collect();
            return Some(Op::Wait { p: parts[0].parse().ok()?, t: parts[1].strip_prefix('T')?.parse().ok()? });
        }
        if let Some(r) = inner("join(P") {
            let parts: Vec<&str> = r.split(',').collect();
            return Some(Op::Join { p: parts[0].parse().ok()?, t: parts[1].strip_prefix('T')?.parse().ok()? });
        }
        if let Some(r) = inner("stop(P") {
            return Some(Op::Stop(r.split(',').next()?.parse().ok()?));
        }
        if let Some(r) = inner("clean(T") {
            return Some(Op::Clean(r.parse().ok()?));
        }
        if let Some(r) = inner("resubmit-name-of(T") {
            return Some(Op::Resubmit(r.parse().ok()?));
        }
        if let Some(r) = inner("submit_co-huge-stack(P") {
            return Some(Op::SubmitCoBad(r.parse().ok()?));
        }
        if let Some(r) = inner("submit_co(P") {
            return Some(Op::SubmitCo(r.parse().ok()?));
        }
        if let Some(r) = s.strip_prefix("only-P").and_then(|r| r.strip_suffix("-keeps-scheduling")) {
            return Some(Op::Solo(r.parse().ok()?));
        }
        None
    }
}

#[derive(Clone, Debug)]
pub struct Cfg {
    pub name: String,
    /// (min, max, keep-alive ns) per pool
    pub pools: Vec<(usize, usize, u64)>,
    pub qcap: usize,
    pub progs: Vec<usize>,
    pub prios: Vec<i64>,
    pub max_tasks: usize,
    pub ops: Vec<&'static str>, // which op kinds are offered: submit pass adv cancel wait join stop
    pub depth: usize,
}

impl Cfg {
    pub fn to_json(&self) -> Value {
        json!({"name": self.name, "pools": self.pools.iter().map(|(a, b, c)| json!({"min":a,"max":b,"keep_alive_ns":c})).collect::<Vec<_>>(),
            "queue_capacity": self.qcap, "programs": self.progs.iter().map(|p| PROGS[*p]).collect::<Vec<_>>(),
            "priorities": self.prios, "max_tasks": self.max_tasks, "ops": self.ops, "depth": self.depth})
    }
    pub fn from_json(v: &Value) -> Option<Cfg> {
        let ops_all = ["submit", "pass", "adv", "cancel", "wait", "join", "stop", "clean", "resubmit", "cobad", "co"];
        Some(Cfg {
            name: v.get("name")?.as_str()?.to_string(),
            pools: v.get("pools")?.as_array()?.iter().map(|p| Some((p.get("min")?.as_u64()? as usize, p.get("max")?.as_u64()? as usize, p.get("keep_alive_ns")?.as_u64()?))).collect::<Option<Vec<_>>>()?,
            qcap: v.get("queue_capacity")?.as_u64()? as usize,
            progs: v.get("programs")?.as_array()?.iter().map(|p| PROGS.iter().position(|x| Some(*x) == p.as_str())).collect::<Option<Vec<_>>>()?,
            prios: v.get("priorities")?.as_array()?.iter().map(Value::as_i64).collect::<Option<Vec<_>>>()?,
            max_tasks: v.get("max_tasks")?.as_u64()? as usize,
            ops: v.get("ops")?.as_array()?.iter().filter_map(|o| ops_all.iter().copied().find(|x| Some(*x) == o.as_str())).collect(),
            depth: v.get("depth")?.as_u64()? as usize,
        })
    }
    fn enabled(&self, hist: &[Op]) -> Vec<Op> {
        let mut v = Vec::new();
        let ntasks = hist.iter().filter(|o| is_submit(o)).count();
        // a join / forever-wait leaves the clock at the end of time: nothing follows
        if hist.iter().any(|o| matches!(o, Op::Join { .. })) {
            return v;
        }
        let np = self.pools.len();
        if self.ops.contains(&"submit") && ntasks < self.max_tasks {
            for p in 0..np {
                for prog in &self.progs {
                    for prio in &self.prios {
                        v.push(Op::Submit { p, prog: *prog, prio: *prio });
                    }
                }
            }
        }
        if self.ops.contains(&"pass") {
            for p in 0..np {
                // a plain pass on a pool with min_size >= 1 does not return while the pool is
                // running (its single idle worker never yields) - not one of the listed properties,
                // so such pools are driven only through stop()
                if self.pools[p].0 == 0 && !hist.contains(&Op::Stop(p)) {
                    v.push(Op::Pass(p));
                }
            }
        }
        if self.ops.contains(&"solo") && np > 1 && !hist.iter().any(|o| matches!(o, Op::Solo(_) | Op::Stop(_))) {
            for p in 0..np {
                if self.pools[p].0 == 0 {
                    v.push(Op::Solo(p));
                }
            }
        }
        if self.ops.contains(&"adv") {
            v.push(Op::Adv(5));
        }
        // once a task's name has been reused, its id means two tasks: leave it alone
        let reused = |t: usize| hist.contains(&Op::Resubmit(t));
        if self.ops.contains(&"cancel") {
            for t in 0..ntasks {
                if !hist.contains(&Op::Cancel(t)) && !reused(t) {
                    v.push(Op::Cancel(t));
                }
            }
        }
        if self.ops.contains(&"clean") {
            for t in 0..ntasks {
                if !hist.contains(&Op::Clean(t)) && !reused(t) && !hist.iter().any(|o| matches!(o, Op::Wait { t: tt, .. } if *tt == t)) {
                    v.push(Op::Clean(t));
                }
            }
        }
        if self.ops.contains(&"resubmit") && ntasks < self.max_tasks {
            for t in 0..ntasks {
                if !reused(t) && matches!(hist.iter().filter(|o| is_submit(o)).nth(t), Some(Op::Submit { .. })) {
                    v.push(Op::Resubmit(t));
                }
            }
        }
        if self.ops.contains(&"cobad") {
            for p in 0..np {
                if !hist.contains(&Op::SubmitCoBad(p)) {
                    v.push(Op::SubmitCoBad(p));
                }
            }
        }
        if self.ops.contains(&"co") {
            for p in 0..np {
                if hist.iter().filter(|o| **o == Op::SubmitCo(p)).count() < 2 {
                    v.push(Op::SubmitCo(p));
                }
            }
        }
        for t in 0..ntasks {
            if reused(t) {
                continue;
            }
            let Some(Op::Submit { p, .. }) = hist.iter().filter(|o| is_submit(o)).nth(t) else { continue };
            if self.ops.contains(&"wait") && !hist.iter().any(|o| matches!(o, Op::Wait { t: tt, .. } if *tt == t)) {
                v.push(Op::Wait { p: *p, t });
            }
            if self.ops.contains(&"join") {
                v.push(Op::Join { p: *p, t });
            }
        }
        if self.ops.contains(&"stop") {
            for p in 0..np {
                if hist.iter().filter(|o| **o == Op::Stop(p)).count() < 2 {
                    v.push(Op::Stop(p));
                }
            }
        }
        v
    }
}

#[derive(Clone, Debug)]
pub struct Viol {
    pub property: &'static str,
    pub clause: String,
    pub class: String,
    pub detail: String,
}

struct TaskInfo {
    name: String,
    pool: usize,
    prog: usize,
    prio: i64,
    id: u64,
    accepted: bool,
    /// cancelled before it had started
    cancelled_before_start: bool,
    cancelled: bool,
    result_taken: bool,
}

fn clone_info(t: &TaskInfo) -> TaskInfo {
    TaskInfo { name: t.name.clone(), pool: t.pool, prog: t.prog, prio: t.prio, id: t.id, accepted: t.accepted, cancelled_before_start: t.cancelled_before_start, cancelled: t.cancelled, result_taken: t.result_taken }
}

#[derive(Default)]
struct Shared {
    /// (virtual time, task, step, pool that ran it)
    log: Vec<(u64, usize, usize, usize)>,
    started: Vec<u32>,
    finished: Vec<bool>,
    ids: Vec<u64>,
    /// cancel requests made from inside task bodies: (target, target had started, target had finished)
    body_cancels: Vec<(usize, bool, bool)>,
    /// submissions made from inside a task body: (task, pool was Running, accepted)
    inner_submits: Vec<(usize, bool, bool)>,
    /// waits made from inside a task body on the OTHER pool, for an id nobody submitted:
    /// (task, the other pool was Stopped when the wait began, result)
    other_waits: Vec<(usize, bool, String)>,
    /// joins made from inside a task body: (joiner, target, result, virtual start, timeout in ns)
    inner_joins: Vec<(usize, usize, String, u64, u64)>,
}

pub struct Outcome {
    pub key: String,
    pub viols: Vec<Viol>,
    pub witnesses: Vec<&'static str>,
    /// the last op hung in a way the harness detects itself (virtual clock ran to the end of time)
    pub terminal: bool,
}

fn fresh_beans(locals: usize, cap: usize) {
    // a fresh small-capacity global task queue and a fresh coroutine queue for this history
    if let Some(old) = BeanFactory::remove_bean::<OrderedWorkStealQueue<Task<'static>>>(TASK_GLOBAL_QUEUE_BEAN) {
        std::mem::forget(old);
    }
    BeanFactory::init_bean(TASK_GLOBAL_QUEUE_BEAN, OrderedWorkStealQueue::<Task<'static>>::new(locals, cap));
    if let Some(old) = BeanFactory::remove_bean::<OrderedWorkStealQueue<SchedulableCoroutine<'static>>>(COROUTINE_GLOBAL_QUEUE_BEAN) {
        std::mem::forget(old);
    }
    BeanFactory::init_bean(COROUTINE_GLOBAL_QUEUE_BEAN, OrderedWorkStealQueue::<SchedulableCoroutine<'static>>::new(locals.max(2), 256));
}

fn expected_result(prog: usize) -> Result<Option<usize>, String> {
    match PROGS[prog] {
        "Panic" => Err("task panics".into()),
        "PanicFmt" => Err("task panics with code 7".into()),
        _ => Ok(Some(1000 + prog)),
    }
}

pub fn run_history(cfg: &Cfg, hist: &[Op], emit_at: Option<&mut Emitter>) -> Outcome {
    open_coroutine_core::verif::clock_enable(T0);
    let uniq = UNIQ.fetch_add(1, Ordering::SeqCst);
    let np = cfg.pools.len();
    fresh_beans(np, cfg.qcap);
    let mut pools: Vec<CoroutinePool<'static>> = cfg
        .pools
        .iter()
        .enumerate()
        .map(|(i, (min, max, ka))| CoroutinePool::new(format!("pool-{uniq}-{i}"), 64 * 1024, *min, *max, *ka))
        .collect();
    *POOL_PTRS.lock().unwrap() = pools.iter().map(|p| std::ptr::from_ref(p) as usize).collect();
    let sh: Arc<Mutex<Shared>> = Arc::new(Mutex::new(Shared::default()));
    let mut tasks: Vec<TaskInfo> = Vec::new();
    let mut viols: Vec<Viol> = Vec::new();
    let mut witnesses: Vec<&'static str> = Vec::new();
    let mut stopped_once = vec![false; np];
    let mut stop_ok = vec![false; np];
    let mut last_state: Vec<PoolState> = pools.iter().map(CoroutinePool::state).collect();
    let mut terminal = false;
    let mut em = emit_at;
    let push = |viols: &mut Vec<Viol>, property: &'static str, clause: &str, class: &str, detail: String| {
        if !viols.iter().any(|v| v.property == property && v.clause == clause) {
            viols.push(Viol { property, clause: clause.into(), class: class.into(), detail });
        }
    };
    // which pool is currently scheduling (so that a task body can log who ran it)
    let cur_pool: Arc<AtomicU64> = Arc::new(AtomicU64::new(u64::MAX));

    for (k, op) in hist.iter().enumerate() {
        if let Some(e) = em.as_deref_mut() {
            e.emit(json!({"t":"op","k":k}));
        }
        let at = |w: String| format!("op #{k} {}: {w}", op.to_json());
        let t_before = now();
        match op {
            Op::Submit { .. } | Op::Resubmit(_) => {
                let (p, prog, prio, name) = match op {
                    Op::Submit { p, prog, prio } => (p, prog, prio, format!("task-{uniq}-{}", tasks.len())),
                    Op::Resubmit(old) => {
                        // only when the earlier task is really gone (finished, or cancelled before
                        // it started and already discarded): otherwise its id would be ambiguous
                        let gone = {
                            let s = sh.lock().unwrap();
                            (s.finished[*old] || (s.started[*old] > 0 && expected_result(tasks[*old].prog).is_err()) || tasks[*old].cancelled_before_start) && pools.iter().all(|q| q.size() == 0)
                        };
                        let tainted = tasks[*old].cancelled && !tasks[*old].cancelled_before_start;
                        if !gone || tainted || !tasks[*old].accepted {
                            // keep task numbering aligned with the history: a task that was never submitted
                            {
                                let mut s = sh.lock().unwrap();
                                s.started.push(0);
                                s.finished.push(false);
                                s.ids.push(0);
                            }
                            tasks.push(TaskInfo { name: String::new(), pool: tasks[*old].pool, prog: 0, prio: 0, id: 0, accepted: false, cancelled_before_start: false, cancelled: false, result_taken: false });
                            continue;
                        }
                        witnesses.push("task_name_reused");
                        (&tasks[*old].pool.clone(), &0usize, &0i64, tasks[*old].name.clone())
                    }
                    _ => unreachable!(),
                };
                let t = tasks.len();
                let (shc, cp, progc) = (sh.clone(), cur_pool.clone(), *prog);
                {
                    let mut s = sh.lock().unwrap();
                    s.started.push(0);
                    s.finished.push(false);
                    s.ids.push(0);
                }
                let body = move |_: Option<usize>| -> Option<usize> {
                    let who = cp.load(Ordering::SeqCst) as usize;
                    let step = |n: usize| shc.lock().unwrap().log.push((now(), t, n, who));
                    shc.lock().unwrap().started[t] += 1;
                    step(0);
                    match PROGS[progc] {
                        "Return" => {}
                        "Panic" => panic!("task panics"),
                        "PanicFmt" => panic!("task panics with code {}", 7),
                        "Suspend" => {
                            SchedulableSuspender::current().expect("suspender").suspend();
                            step(1);
                        }
                        "Delay5" => {
                            SchedulableSuspender::current().expect("suspender").delay(Duration::from_millis(5));
                            step(1);
                        }
                        "Delay5x2" => {
                            SchedulableSuspender::current().expect("suspender").delay(Duration::from_millis(5));
                            step(1);
                            SchedulableSuspender::current().expect("suspender").delay(Duration::from_millis(5));
                            step(2);
                        }
                        "CancelSelf" => {
                            let id = {
                                let mut s = shc.lock().unwrap();
                                s.body_cancels.push((t, true, false));
                                s.ids[t]
                            };
                            CoroutinePool::try_cancel_task(id);
                            step(1);
                            SchedulableSuspender::current().expect("suspender").suspend();
                            step(2);
                        }
                        "SubmitInside" => {
                            let pool = CoroutinePool::current().expect("current pool");
                            let running = pool.state() == PoolState::Running;
                            let n = shc.lock().unwrap().inner_submits.len();
                            let ok = pool.submit_task(Some(format!("inner-{who}-{t}-{n}-{}", now())), |_| Some(1), None, None).is_ok();
                            shc.lock().unwrap().inner_submits.push((t, running, ok));
                            step(1);
                        }
                        "JoinNext" => {
                            // the task submitted right after this one (one joiner per task: the public
                            // JoinHandle is unique, two waits for one result are caller misuse)
                            let target = {
                                let s = shc.lock().unwrap();
                                s.ids.get(t + 1).copied().filter(|id| *id != 0).map(|id| (t + 1, id))
                            };
                            if let Some((tt, id)) = target {
                                let pool = CoroutinePool::current().expect("current pool");
                                let r = pool.wait_task_result(id, Duration::from_secs(5));
                                let txt = match r {
                                    Ok(Ok(v)) => format!("Ok({v:?})"),
                                    Ok(Err(m)) => format!("Err({m})"),
                                    Err(e) => format!("IoErr({:?})", e.kind()),
                                };
                                shc.lock().unwrap().inner_joins.push((t, tt, txt, 0, 5_000 * MS));
                            }
                            step(1);
                        }
                        "WaitOtherPool" => {
                            // a coroutine-side wait on the other pool for a task that will never run there
                            let ptrs = POOL_PTRS.lock().unwrap().clone();
                            if ptrs.len() == 2 && who < 2 {
                                let other = unsafe { &*(ptrs[1 - who] as *const CoroutinePool<'static>) };
                                let stopped = other.state() == PoolState::Stopped;
                                let r = other.wait_task_result(0x0dead_beef_u64 + t as u64, Duration::from_millis(50));
                                let txt = match r {
                                    Ok(Ok(v)) => format!("Ok({v:?})"),
                                    Ok(Err(m)) => format!("Err({m})"),
                                    Err(e) => format!("IoErr({:?})", e.kind()),
                                };
                                shc.lock().unwrap().other_waits.push((t, stopped, txt));
                            }
                            step(1);
                        }
                        "JoinSkipShort" => {
                            // joins the task submitted TWO places later with a 50 ms timeout: the joiner's own
                            // try_run rounds first run the task in between
                            let target = {
                                let s = shc.lock().unwrap();
                                s.ids.get(t + 2).copied().filter(|id| *id != 0).map(|id| (t + 2, id))
                            };
                            if let Some((tt, id)) = target {
                                let pool = CoroutinePool::current().expect("current pool");
                                let t0 = now();
                                let r = pool.wait_task_result(id, Duration::from_millis(50));
                                let txt = match r {
                                    Ok(Ok(v)) => format!("Ok({v:?})"),
                                    Ok(Err(m)) => format!("Err({m})"),
                                    Err(e) => format!("IoErr({:?})", e.kind()),
                                };
                                shc.lock().unwrap().inner_joins.push((t, tt, txt, t0, 50 * MS));
                            }
                            step(1);
                        }
                        "Delay100" => {
                            SchedulableSuspender::current().expect("suspender").delay(Duration::from_millis(100));
                            step(1);
                        }
                        "CancelPrev" => {
                            if t > 0 {
                                let id = {
                                    let mut s = shc.lock().unwrap();
                                    let (st, fin) = (s.started[t - 1] > 0, s.finished[t - 1]);
                                    s.body_cancels.push((t - 1, st, fin));
                                    s.ids[t - 1]
                                };
                                CoroutinePool::try_cancel_task(id);
                            }
                            step(1);
                        }
                        _ => unreachable!(),
                    }
                    shc.lock().unwrap().finished[t] = true;
                    Some(1000 + progc)
                };
                let r = pools[*p].submit_task(Some(name.clone()), body, None, Some(*prio));
                let accepted = r.is_ok();
                if let Ok(id) = &r {
                    sh.lock().unwrap().ids[t] = *id;
                }
                tasks.push(TaskInfo { name, pool: *p, prog: *prog, prio: *prio, id: r.as_ref().copied().unwrap_or(0), accepted, cancelled_before_start: false, cancelled: false, result_taken: false });
                // C12: once stopping began, submissions are rejected
                if stopped_once[*p] && accepted {
                    push(&mut viols, "C12", "submission-rejected-after-stop", "-", at("the pool accepted a task after stop() had been called".into()));
                }
                if !stopped_once[*p] && !accepted {
                    push(&mut viols, "C12", "running-pool-accepts-work", "-", at(format!("a running pool rejected the task: {:?}", r.err())));
                }
            }
            Op::Pass(p) => {
                cur_pool.store(*p as u64, Ordering::SeqCst);
                let r = pools[*p].try_timed_schedule_task(Duration::from_millis(2));
                cur_pool.store(u64::MAX, Ordering::SeqCst);
                if let Err(e) = r {
                    if pools[*p].state() != PoolState::Stopped {
                        push(&mut viols, "C01", "scheduling-pass-succeeds", "-", at(format!("try_timed_schedule_task failed: {e}")));
                    }
                }
            }
            Op::Adv(ms) => open_coroutine_core::verif::clock_set(now() + ms * MS),
            Op::Solo(p) => {
                let unstarted: Vec<usize> = {
                    let s = sh.lock().unwrap();
                    (0..tasks.len()).filter(|t| tasks[*t].accepted && !tasks[*t].cancelled && s.started[*t] == 0).collect()
                };
                for _ in 0..16 {
                    cur_pool.store(*p as u64, Ordering::SeqCst);
                    let _ = pools[*p].try_timed_schedule_task(Duration::from_millis(2));
                    cur_pool.store(u64::MAX, Ordering::SeqCst);
                    open_coroutine_core::verif::clock_set(now() + 5 * MS);
                }
                let s = sh.lock().unwrap();
                if let Some(t) = unstarted.iter().find(|t| s.started[**t] == 0) {
                    let class = if tasks[*t].pool == *p { "own-task" } else { "task-accepted-by-the-other-pool" };
                    push(&mut viols, "C01", "a-pool-that-keeps-scheduling-finds-every-waiting-task", class, at(format!("pool {p} alone scheduled 16 times (80 ms) and task T{t}, accepted by pool {} and not cancelled, still has not started ({} task(s) reported queued)", tasks[*t].pool, pools[*p].size())));
                } else if !unstarted.is_empty() {
                    witnesses.push("solo_pool_ran_every_waiting_task");
                }
            }
            Op::Cancel(t) => {
                let (started, finished) = {
                    let s = sh.lock().unwrap();
                    (s.started[*t] > 0, s.finished[*t])
                };
                if tasks[*t].accepted {
                    CoroutinePool::try_cancel_task(tasks[*t].id);
                    if !finished {
                        tasks[*t].cancelled = true;
                        if !started {
                            tasks[*t].cancelled_before_start = true;
                        }
                    }
                }
            }
            Op::Wait { p, t } | Op::Join { p, t } => {
                let forever = matches!(op, Op::Join { .. });
                if forever {
                    drive(cfg, &mut pools, &sh, &cur_pool);
                }
                let ti = &tasks[*t];
                if !ti.accepted {
                    continue;
                }
                let (st_t, fin_t) = {
                    let s = sh.lock().unwrap();
                    (s.started[*t], s.finished[*t])
                };
                let finished_before = fin_t || (st_t > 0 && expected_result(ti.prog).is_err());
                let t0 = now();
                let dur = if forever { Duration::from_nanos(u64::MAX - t0) } else { Duration::from_millis(5) };
                let r = pools[*p].wait_task_result(ti.id, dur).map(|r| r.map_err(str::to_string)).map_err(|e| e.kind());
                let elapsed = now().saturating_sub(t0);
                let blocked_forever = forever && now() > T0 + (1 << 62);
                if forever {
                    terminal = true;
                }
                let want = expected_result(ti.prog);
                let ran_elsewhere = sh.lock().unwrap().log.iter().any(|e| e.1 == *t && e.3 != *p && e.3 != usize::MAX);
                match &r {
                    Ok(got) => {
                        let already_taken = tasks[*t].result_taken;
                        tasks[*t].result_taken = true;
                        let ti = TaskInfo { result_taken: already_taken, ..clone_info(&tasks[*t]) };
                        let ti = &ti;
                        if *got != want {
                            // a stop()ped pool legitimately answers "stopped" for a task that never ran
                            let stopped_msg = matches!(got, Err(m) if m.contains("stopped"));
                            // a task that never ran has no outcome of its own: any error is right
                            let never_ran = st_t == 0 && got.is_err();
                            // the one result of a task can be taken once; later waits have nothing to return
                            if !(stopped_msg && !finished_before) && !never_ran && !ti.result_taken {
                                push(&mut viols, "C02", "wait-returns-own-outcome", "-", at(format!("wait returned {got:?}, the task's own outcome is {want:?}")));
                            }
                        }
                    }
                    Err(_) if finished_before && !ti.result_taken => {
                        let class = if ran_elsewhere { "task-ran-on-another-pool" } else { "same-pool" };
                        if forever {
                            push(&mut viols, "C02", "wait-returns-once-task-finished", class, at(format!("the task had finished (on pool {:?}) but join() on the pool that accepted it never returns", ran_pool(&sh, *t))));
                        } else {
                            push(&mut viols, "C02", "wait-returns-once-task-finished", class, at(format!("the task had finished (on pool {:?}) before the wait started, yet the wait timed out after {elapsed}ns", ran_pool(&sh, *t))));
                        }
                    }
                    Err(_) if blocked_forever && ti.cancelled_before_start && !finished_before && !ti.result_taken => {
                        let class = "cancelled-before-start";
                        push(&mut viols, "C13", "waiter-of-cancelled-task-settled", class, at("every pool was driven to quiescence, the task was cancelled and will never run, but a waiter without timeout is blocked forever".into()));
                    }
                    Err(_) if blocked_forever && stop_ok[*p] && !finished_before && !ti.result_taken => {
                        push(&mut viols, "C12", "waiter-of-never-run-task-gets-error", "-", at("the pool has stopped, the task will never run, but a waiter without timeout is blocked forever".into()));
                    }
                    Err(_) => {}
                }
                witnesses.push(if forever { "join_issued" } else { "timed_wait_issued" });
            }
            Op::Clean(t) => {
                if tasks[*t].accepted {
                    pools[tasks[*t].pool].clean_task_result(tasks[*t].id);
                    tasks[*t].result_taken = true;
                    witnesses.push("result_disowned");
                }
            }
            Op::SubmitCoBad(p) => {
                let before = pools[*p].get_running_size();
                let r = pools[*p].submit_co(|_, ()| None, Some(1usize << 60), None);
                let after = pools[*p].get_running_size();
                if r.is_err() && after != before {
                    push(&mut viols, "C11", "running-size-counts-live-workers", "failed-worker-creation", at(format!("creating a worker failed ({:?}) yet the running size went from {before} to {after}", r.err().map(|e| e.kind()))));
                }
                witnesses.push("worker_creation_failure_injected");
            }
            Op::SubmitCo(p) => {
                // a coroutine that parks once and ends; refused (Err) when the pool is full
                let before = pools[*p].get_running_size();
                let r = pools[*p].submit_co(|s, ()| {
                    s.suspend();
                    Some(0)
                }, None, None);
                let after = pools[*p].get_running_size();
                if r.is_err() && after != before {
                    push(&mut viols, "C11", "running-size-counts-live-workers", "refused-coroutine", at(format!("submit_co was refused ({:?}) yet the running size went from {before} to {after}", r.as_ref().err().map(std::io::Error::kind))));
                }
                witnesses.push(if r.is_ok() { "direct_coroutine_accepted" } else { "direct_coroutine_refused" });
            }
            Op::Stop(p) => {
                stopped_once[*p] = true;
                cur_pool.store(*p as u64, Ordering::SeqCst);
                // (what had finished BEFORE the stop began, on ANY pool: the pools share the queue and a stopping
                // pool runs whatever is queued, so only then is there nothing for stop to spend time on)
                let (started_before, finished_before) = {
                    let s = sh.lock().unwrap();
                    (s.started.clone(), s.finished.clone())
                };
                let t0 = now();
                let r = pools[*p].stop(Duration::from_millis(50));
                cur_pool.store(u64::MAX, Ordering::SeqCst);
                let elapsed = now().saturating_sub(t0);
                witnesses.push("stop_issued");
                for (j, started, finished) in sh.lock().unwrap().body_cancels.clone() {
                    if tasks[j].accepted && !finished && !tasks[j].cancelled {
                        tasks[j].cancelled = true;
                        if !started {
                            tasks[j].cancelled_before_start = true;
                        }
                    }
                }
                if r.is_ok() {
                    stop_ok[*p] = true;
                    let (started, finished) = {
                        let s = sh.lock().unwrap();
                        (s.started.clone(), s.finished.clone())
                    };
                    // C12: every task accepted earlier by this pool has run before stop reports success
                    for (t, ti) in tasks.iter().enumerate() {
                        let done = finished[t] || (started[t] > 0 && expected_result(ti.prog).is_err());
                        if ti.pool == *p && ti.accepted && !ti.cancelled && !done && PROGS[ti.prog] != "CancelSelf" {
                            let class = if started[t] == 0 { "never-started" } else { "started-but-unfinished" };
                            let timed_out = elapsed >= 50 * MS;
                            push(&mut viols, "C12", "accepted-tasks-run-before-stop-succeeds", &format!("{class}:{}", if timed_out { "stop-timeout-expired" } else { "before-timeout" }), at(format!("stop() reported success after {elapsed}ns but task T{t}, accepted earlier and never cancelled, has not run to its end")));
                            break;
                        }
                    }
                    // C11: all work done or cancelled => stop is prompt, not the whole timeout
                    let all_settled = tasks.iter().enumerate().all(|(t, ti)| !ti.accepted || finished_before[t] || ti.cancelled || (started_before[t] > 0 && expected_result(ti.prog).is_err()));
                    if all_settled && elapsed >= 45 * MS {
                        push(&mut viols, "C11", "stop-prompt-when-work-done", "-", at(format!("all tasks of the pool had finished or been cancelled, yet stop() burned {elapsed}ns of its 50ms timeout (running size {})", pools[*p].get_running_size())));
                    }
                    if pools[*p].get_running_size() != 0 {
                        push(&mut viols, "C11", "running-size-zero-after-stop", "-", at(format!("stop() returned Ok but the pool still reports {} running workers", pools[*p].get_running_size())));
                    }
                } else {
                    // C11: with all work done or cancelled there is nothing a stop could be waiting for
                    let (started, finished) = {
                        let s = sh.lock().unwrap();
                        (s.started.clone(), s.finished.clone())
                    };
                    let _ = (&started, &finished);
                    let all_settled = tasks.iter().enumerate().all(|(t, ti)| !ti.accepted || finished_before[t] || ti.cancelled || (started_before[t] > 0 && expected_result(ti.prog).is_err()));
                    let direct = hist[..=k].iter().any(|o| *o == Op::SubmitCo(*p));
                    if all_settled && !direct {
                        push(&mut viols, "C11", "stop-prompt-when-work-done", "stop-failed", at(format!("all tasks of the pool had finished or been cancelled, yet stop() failed with {:?} after {elapsed}ns (running size {}): idle workers kept it waiting", r.as_ref().err().map(std::io::Error::kind), pools[*p].get_running_size())));
                    }
                }
            }
        }
        let _ = t_before;
        // cancel requests made from inside task bodies during this operation
        for (j, started, finished) in sh.lock().unwrap().body_cancels.clone() {
            if tasks[j].accepted && !finished && !tasks[j].cancelled {
                tasks[j].cancelled = true;
                if !started {
                    tasks[j].cancelled_before_start = true;
                }
            }
        }
        // submissions / joins made from inside task bodies during this operation
        {
            let (subs, joins, fin, st) = {
                let s = sh.lock().unwrap();
                (s.inner_submits.clone(), s.inner_joins.clone(), s.finished.clone(), s.started.clone())
            };
            for (t, running, accepted) in subs {
                if !running && accepted {
                    push(&mut viols, "C12", "submission-rejected-after-stop", "from-a-task-while-stopping", at(format!("task T{t} submitted a task while its pool was stopping and the submission was accepted")));
                }
                witnesses.push("submission_from_inside_a_task");
            }
            for (t, stopped, txt) in sh.lock().unwrap().other_waits.clone() {
                if stopped {
                    witnesses.push("coroutine_waited_on_a_stopped_pool");
                    if txt != "Err(The coroutine pool has stopped)" {
                        push(&mut viols, "C12", "waiter-on-stopped-pool-gets-an-error", "waiter-is-a-coroutine", at(format!("task T{t} waited (from inside another pool) on a pool that was already stopped, for a task that will never run there, and got {txt} instead of the pool-has-stopped error")));
                    }
                }
            }
            for (j, target, txt, started_at, timeout) in joins {
                witnesses.push("join_from_inside_a_task");
                if target < tasks.len() && tasks[target].accepted && !tasks[target].cancelled {
                    let want = match expected_result(tasks[target].prog) {
                        Ok(v) => format!("Ok({v:?})"),
                        Err(m) => format!("Err({m})"),
                    };
                    let _ = (&fin, &st);
                    // a short wait may time out - but only if the target had not finished by the deadline
                    let finished_at = sh.lock().unwrap().log.iter().filter(|e| e.1 == target).map(|e| e.0).max();
                    let legit_timeout = timeout < 1000 * MS && txt == "IoErr(TimedOut)" && finished_at.is_none_or(|f| f > started_at + timeout);
                    if txt != want && !legit_timeout {
                        push(&mut viols, "C02", "wait-returns-own-outcome", "waiter-is-a-task", at(format!("task T{j} joined task T{target} from inside the pool with a {}ms timeout (from {}ns) and got {txt}; T{target}'s own outcome is {want}, it finished at {finished_at:?}ns", timeout / MS, started_at.saturating_sub(T0))));
                    }
                    if timeout < 1000 * MS && txt == want {
                        witnesses.push("short_join_from_inside_a_task_got_the_result");
                    }
                }
            }
        }
        // ---- invariants after every operation
        for (p, pool) in pools.iter().enumerate() {
            let st = pool.state();
            if st < last_state[p] {
                push(&mut viols, "C12", "pool-state-monotone", "-", at(format!("pool {p} went from {:?} back to {st:?}", last_state[p])));
            }
            last_state[p] = st;
            let running = pool.get_running_size();
            if running > cfg.pools[p].1 {
                push(&mut viols, "C11", "running-size-within-max", "-", at(format!("pool {p} reports {running} running workers, max is {}", cfg.pools[p].1)));
            }
        }
        let started: Vec<u32> = sh.lock().unwrap().started.clone();
        for (t, n) in started.iter().enumerate() {
            if *n > 1 {
                push(&mut viols, "C01", "task-runs-at-most-once", "-", at(format!("task T{t} was started twice")));
                break;
            }
        }
        for (t, ti) in tasks.iter().enumerate() {
            if ti.cancelled_before_start && started[t] > 0 {
                push(&mut viols, "C13", "cancelled-before-start-never-runs", "-", at(format!("task T{t} was cancelled before it started but ran")));
                break;
            }
        }
        if !viols.is_empty() || terminal {
            break;
        }
    }
    // ---- canonical key of the state reached
    let key = {
        let s = sh.lock().unwrap();
        let mut key = String::new();
        for (p, pool) in pools.iter().enumerate() {
            key.push_str(&format!("P{p}[{:?},r{},s{}]", pool.state(), pool.get_running_size(), pool.size()));
        }
        for (t, ti) in tasks.iter().enumerate() {
            let steps = s.log.iter().filter(|e| e.1 == t).count();
            key.push_str(&format!("T{t}[p{},g{},pr{},a{},c{},st{},f{},rt{}]", ti.pool, ti.prog, ti.prio, ti.accepted as u8, ti.cancelled as u8, steps, s.finished[t] as u8, ti.result_taken as u8));
        }
        // pending delays relative to now
        let t = now();
        for e in s.log.iter().rev().take(4) {
            key.push_str(&format!("<{}>", t.saturating_sub(e.0).min(20 * MS) / MS));
        }
        key
    };
    if viols.is_empty() && !terminal {
        if let Some(e) = em.as_deref_mut() {
            e.emit(json!({"t":"op","k":"quiescence-drive"}));
        }
        quiescence_checks(cfg, hist, &mut pools, &sh, &tasks, &cur_pool, &stopped_once, &mut viols, &mut witnesses);
    }
    // never run the pools' Drop (it stops the pool and asserts): the child exits anyway
    for p in pools {
        std::mem::forget(p);
    }
    Outcome { key, viols, witnesses, terminal }
}

/// What the loop threads do concurrently in the real system: keep scheduling until nothing moves
/// any more (no new log entry, no queued task, no running worker) for three rounds in a row.
fn drive(cfg: &Cfg, pools: &mut [CoroutinePool<'static>], sh: &Arc<Mutex<Shared>>, cur_pool: &Arc<AtomicU64>) {
    let mut idle = 0;
    for _ in 0..60 {
        let before = sh.lock().unwrap().log.len();
        for q in 0..pools.len() {
            if cfg.pools[q].0 == 0 && pools[q].state() != PoolState::Stopped {
                cur_pool.store(q as u64, Ordering::SeqCst);
                let _ = pools[q].try_timed_schedule_task(Duration::from_millis(2));
                cur_pool.store(u64::MAX, Ordering::SeqCst);
            }
        }
        open_coroutine_core::verif::clock_set(now() + 20 * MS);
        let moved = sh.lock().unwrap().log.len() != before;
        let busy = pools.iter().any(|p| p.state() != PoolState::Stopped && (p.get_running_size() > 0 || p.size() > 0));
        if moved {
            idle = 0;
        } else {
            idle += 1;
            // parked workers (delays of up to 100 ms) need virtual time, 20 ms per round
            if idle >= 12 || !busy {
                break;
            }
        }
    }
    // idle workers may legitimately linger for the pool's keep-alive time: let it pass as well
    let ka = cfg.pools.iter().map(|p| p.2).max().unwrap_or(0);
    if ka > 200 * MS {
        open_coroutine_core::verif::clock_set(now() + ka);
        for _ in 0..4 {
            for q in 0..pools.len() {
                if cfg.pools[q].0 == 0 && pools[q].state() != PoolState::Stopped {
                    cur_pool.store(q as u64, Ordering::SeqCst);
                    let _ = pools[q].try_timed_schedule_task(Duration::from_millis(2));
                    cur_pool.store(u64::MAX, Ordering::SeqCst);
                }
            }
            open_coroutine_core::verif::clock_set(now() + 20 * MS);
        }
    }
}

fn ran_pool(sh: &Arc<Mutex<Shared>>, t: usize) -> Option<usize> {
    sh.lock().unwrap().log.iter().find(|e| e.1 == t).map(|e| e.3)
}

/// After the history: drive every pool to quiescence the way its loop thread would and check the
/// end-state clauses (C01 every task ran exactly once; C11 running size back to zero; C05 order).
#[allow(clippy::too_many_arguments)]
fn quiescence_checks(
    cfg: &Cfg,
    hist: &[Op],
    pools: &mut [CoroutinePool<'static>],
    sh: &Arc<Mutex<Shared>>,
    tasks: &[TaskInfo],
    cur_pool: &Arc<AtomicU64>,
    stopped_once: &[bool],
    viols: &mut Vec<Viol>,
    witnesses: &mut Vec<&'static str>,
) {
    let np = pools.len();
    // only pools that can be driven by plain passes
    if (0..np).any(|p| cfg.pools[p].0 != 0) {
        return;
    }
    drive(cfg, pools, sh, cur_pool);
    let s = sh.lock().unwrap();
    let hj = json!(hist.iter().map(Op::to_json).collect::<Vec<_>>());
    // joins made from inside task bodies that only came back while driving to quiescence
    for (j, target, txt, started_at, timeout) in s.inner_joins.clone() {
        if target < tasks.len() && tasks[target].accepted && !tasks[target].cancelled && !stopped_once.iter().any(|x| *x) {
            let want = match expected_result(tasks[target].prog) {
                Ok(v) => format!("Ok({v:?})"),
                Err(m) => format!("Err({m})"),
            };
            let finished_at = s.log.iter().filter(|e| e.1 == target).map(|e| e.0).max();
            let legit_timeout = timeout < 1000 * MS && txt == "IoErr(TimedOut)" && finished_at.is_none_or(|f| f > started_at + timeout);
            if txt != want && !legit_timeout {
                viols.push(Viol { property: "C02", clause: "wait-returns-own-outcome".into(), class: "waiter-is-a-task".into(),
                    detail: format!("after {hj} and driving every pool to quiescence: task T{j} joined task T{target} from inside the pool with a {}ms timeout (from {}ns) and got {txt}; T{target}'s own outcome is {want}, it finished at {:?}ns", timeout / MS, started_at.saturating_sub(T0), finished_at.map(|f| f.saturating_sub(T0))) });
                return;
            }
            if timeout < 1000 * MS && txt == want {
                witnesses.push("short_join_from_inside_a_task_got_the_result");
            }
        }
    }
    let any_stopped = stopped_once.iter().any(|x| *x);
    // cancel requests made from inside bodies while driving to quiescence
    let body_cancelled: Vec<usize> = s.body_cancels.iter().filter(|c| !c.2).map(|c| c.0).collect();
    let body_cancelled_before_start: Vec<usize> = s.body_cancels.iter().filter(|c| !c.1 && !c.2).map(|c| c.0).collect();
    for (t, ti) in tasks.iter().enumerate() {
        if !ti.accepted {
            continue;
        }
        let want_run = !ti.cancelled_before_start && !body_cancelled_before_start.contains(&t);
        if want_run && s.started[t] == 0 && !any_stopped {
            let stranded = pools.iter().map(CoroutinePool::size).max().unwrap_or(0);
            viols.push(Viol { property: "C01", clause: "every-task-runs".into(), class: if stranded > 0 { "stranded-in-queue" } else { "lost" }.into(),
                detail: format!("after {hj} and driving every pool to quiescence, task T{t} never ran ({stranded} task(s) still reported queued)") });
            return;
        }
        // a task that nobody cancelled runs to its end
        if want_run && !ti.cancelled && !body_cancelled.contains(&t) && s.started[t] == 1 && !s.finished[t] && expected_result(ti.prog).is_ok() && PROGS[ti.prog] != "CancelSelf" && !any_stopped {
            // was some OTHER task's cancel responsible? (C13: cancelling affects only that task)
            let someone_cancelled = hist.iter().any(|o| matches!(o, Op::Cancel(_))) || tasks.iter().any(|x| x.cancelled) || tasks.iter().any(|x| PROGS[x.prog] == "CancelPrev" || PROGS[x.prog] == "CancelSelf");
            let (prop, clause): (&'static str, &str) = if someone_cancelled { ("C13", "cancel-affects-only-its-target") } else { ("C01", "started-task-finishes") };
            viols.push(Viol { property: prop, clause: clause.into(), class: "-".into(),
                detail: format!("after {hj} and driving every pool to quiescence, task T{t} (never cancelled) started but never finished") });
            return;
        }
    }
    // C11: everything done or cancelled => no worker left
    if !any_stopped {
        for (p, pool) in pools.iter().enumerate() {
            if pool.get_running_size() != 0 {
                let cancelled_parked = tasks.iter().any(|x| x.cancelled && !x.cancelled_before_start) || !body_cancelled.is_empty();
                viols.push(Viol { property: "C11", clause: "running-size-returns-to-zero".into(), class: if cancelled_parked { "after-cancel-of-parked-task" } else { "-" }.into(),
                    detail: format!("after {hj} and driving every pool to quiescence (all work done or cancelled), pool {p} still reports {} running workers", pool.get_running_size()) });
                return;
            }
        }
        witnesses.push("quiescent_end_state_checked");
    }
    // C05: a single worker starts queued tasks in priority order (FIFO among equals) while no more
    // tasks are queued than the local capacity - checked when the history is submits-then-passes
    if np == 1 && cfg.pools[0].1 == 1 && tasks.len() <= cfg.qcap && tasks.len() >= 2 {
        let first_pass = hist.iter().position(|o| !matches!(o, Op::Submit { .. })).unwrap_or(hist.len());
        let only_passes_after = hist[first_pass..].iter().all(|o| matches!(o, Op::Pass(_) | Op::Adv(_)));
        let simple = tasks.iter().all(|x| PROGS[x.prog] == "Return");
        if only_passes_after && simple {
            let mut order: Vec<usize> = Vec::new();
            for e in &s.log {
                if e.2 == 0 {
                    order.push(e.1);
                }
            }
            let mut want: Vec<usize> = (0..tasks.len()).collect();
            want.sort_by_key(|t| tasks[*t].prio);
            if order != want {
                viols.push(Viol { property: "C05", clause: "single-worker-runs-tasks-in-priority-order".into(), class: "-".into(),
                    detail: format!("after {hj}: tasks started in order {order:?}, priority order (FIFO among equals) is {want:?}") });
                return;
            }
            witnesses.push("priority_order_checked");
        }
    }
}

fn on_fresh_thread<T: Send, F: FnOnce() -> T + Send>(f: F) -> Option<T> {
    std::thread::scope(|sc| std::thread::Builder::new().stack_size(2 << 20).spawn_scoped(sc, f).expect("spawn").join().ok())
}

/// One unit of work for a forked child: BFS below `prefix` (or, for the root case, all histories
/// shorter than the prefix length).
#[derive(Clone, Debug)]
pub struct Case {
    cfg: Cfg,
    prefix: Vec<Op>,
    /// explore histories up to this length
    depth: usize,
    deadline_secs: u64,
}

struct Bfs {
    seen: HashSet<String>,
    frontier: VecDeque<Vec<Op>>,
    states: u64,
    transitions: u64,
    execs: u64,
    sigs: Vec<String>,
    wit: HashSet<&'static str>,
    capped: bool,
}

/// Runs histories on the calling thread until the frontier is empty or a violation made the
/// thread's thread-local runtime state untrustworthy (returns false: continue on a fresh thread).
fn bfs_on_this_thread(case: &Case, b: &mut Bfs, fd: i32, start: std::time::Instant) -> bool {
    let mut em = Emitter::from_fd(fd);
    while let Some(h) = b.frontier.pop_front() {
        if start.elapsed().as_secs() >= case.deadline_secs {
            b.capped = true;
            b.frontier.clear();
            return true;
        }
        em.emit(json!({"t":"at","h":h.iter().map(Op::to_json).collect::<Vec<_>>()}));
        let out = {
            let mut e2 = Emitter::from_fd(fd);
            run_history(&case.cfg, &h, Some(&mut e2))
        };
        b.execs += 1;
        if h.len() > case.prefix.len() {
            b.transitions += 1;
        }
        for w in out.witnesses {
            let _ = b.wit.insert(w);
        }
        if !out.viols.is_empty() {
            for v in out.viols {
                let sig = format!("{}/{}/{}", v.property, v.clause, v.class);
                if !b.sigs.contains(&sig) {
                    b.sigs.push(sig);
                    em.emit(json!({"t":"viol","property":v.property,"clause":v.clause,"class":v.class,"detail":v.detail,"history":h.iter().map(Op::to_json).collect::<Vec<_>>()}));
                }
            }
            // the runtime's thread-locals (current pool / scheduler / coroutine stacks) may be
            // unbalanced after a violated history: continue on a fresh thread
            return false;
        }
        if out.terminal {
            continue;
        }
        if b.seen.insert(out.key) {
            b.states += 1;
            if h.len() < case.depth {
                for op in case.cfg.enabled(&h) {
                    let mut n = h.clone();
                    n.push(op);
                    b.frontier.push_back(n);
                }
            }
        }
    }
    true
}

fn exec(case: &Case, em: &mut Emitter) {
    std::panic::set_hook(Box::new(|_| {}));
    let mut b = Bfs { seen: HashSet::new(), frontier: VecDeque::from([case.prefix.clone()]), states: 0, transitions: 0, execs: 0, sigs: Vec::new(), wit: HashSet::new(), capped: false };
    let fd = em.raw_fd();
    let start = std::time::Instant::now();
    loop {
        let done = on_fresh_thread(|| bfs_on_this_thread(case, &mut b, fd, start));
        match done {
            Some(true) => break,
            Some(false) => continue,
            None => {
                em.emit(json!({"t":"viol","property":"C12","clause":"harness-thread-panicked","class":"-","detail":"a history panicked outside a task","history":[]}));
                continue;
            }
        }
    }
    let mut wit: Vec<&str> = b.wit.into_iter().collect();
    wit.sort_unstable();
    em.emit(json!({"t":"done","states":b.states,"transitions":b.transitions,"execs":b.execs,"capped":b.capped,"witnesses":wit}));
}

/// Partition the search below every history of length `split` (process-level parallelism).
fn partition(cfg: &Cfg, split: usize, deadline_secs: u64) -> Vec<Case> {
    let split = split.min(cfg.depth);
    let mut cases = vec![Case { cfg: cfg.clone(), prefix: vec![], depth: split.saturating_sub(1), deadline_secs }];
    let mut level: Vec<Vec<Op>> = vec![vec![]];
    for _ in 0..split {
        let mut next = Vec::new();
        for h in &level {
            for op in cfg.enabled(h) {
                let mut n = h.clone();
                n.push(op);
                next.push(n);
            }
        }
        level = next;
    }
    if split > 0 {
        for h in level {
            cases.push(Case { cfg: cfg.clone(), prefix: h, depth: cfg.depth, deadline_secs });
        }
    }
    cases
}

fn prog(names: &[&str]) -> Vec<usize> {
    names.iter().map(|n| PROGS.iter().position(|x| x == n).expect("prog")).collect()
}

pub fn configs(scen: &str, tier: &str) -> Vec<Cfg> {
    let t = tier == "thorough";
    let d = |q: usize, th: usize| if t { th } else { q };
    let mut v = Vec::new();
    let all = |name: &str, pools: Vec<(usize, usize, u64)>, qcap, progs: &[&str], prios: &[i64], max_tasks, ops: &[&'static str], depth| Cfg {
        name: name.into(), pools, qcap, progs: prog(progs), prios: prios.to_vec(), max_tasks, ops: ops.to_vec(), depth,
    };
    match scen {
        // C01: every task runs exactly once, 1..3 pools sharing a tiny global queue
        "pool.c01" => {
            v.push(all("one-pool", vec![(0, 2, 0)], 2, &["Return", "Suspend", "Delay5"], if t { &[0, 1] } else { &[0] }, d(3, 5), &["submit", "pass", "adv", "cancel"], d(5, 8)));
            v.push(all("two-pools", vec![(0, 1, 0), (0, 2, 0)], 2, &["Return", "Suspend"], &[0], d(3, 5), &["submit", "pass", "cancel", "solo"], d(5, 7)));
            v.push(all("two-pools-cap1", vec![(0, 2, 0), (0, 2, 0)], 1, &["Return", "Delay5"], if t { &[0, -1] } else { &[0] }, d(3, 4), &["submit", "pass", "adv", "solo"], d(5, 7)));
            v.push(all("name-reuse", vec![(0, 1, 0)], 4, &["Return"], &[0], 3, &["submit", "pass", "cancel", "clean", "resubmit"], d(6, 7)));
            if t {
                v.push(all("three-pools", vec![(0, 1, 0), (0, 1, 0), (0, 2, 0)], 2, &["Return", "Suspend"], &[0], 4, &["submit", "pass", "solo"], 7));
            }
        }
        // C02: waits return the task's own outcome, whichever pool ran it
        "pool.c02" => {
            v.push(all("one-pool", vec![(0, 2, 0)], 4, &["Return", "Panic", "PanicFmt", "Delay5"], &[0], d(2, 3), &["submit", "pass", "adv", "wait", "join", "stop"], d(5, 7)));
            v.push(all("join-from-task", vec![(0, 1, 0)], 4, &["Return", "Panic", "JoinNext"], &[0], d(3, 4), &["submit", "pass"], d(5, 7)));
            // a task joins with a SHORT timeout while its own wait loop runs a slow task; another worker finishes the target in time
            v.push(all("short-join-from-task", vec![(0, 2, 0)], 4, &["Return", "Delay100", "JoinSkipShort"], &[0], d(3, 4), &["submit", "pass", "adv"], d(5, 7)));
            v.push(all("two-pools", vec![(0, 2, 0), (0, 2, 0)], 1, &["Return", "Panic"], &[0], d(3, 3), &["submit", "pass", "wait", "join"], d(5, 7)));
        }
        // C05 (pool part): single worker, priorities
        "pool.c05" => {
            v.push(all("single-worker", vec![(0, 1, 0)], 4, &["Return"], &[0, -1, 1, i64::MIN, i64::MAX], 4, &["submit", "pass"], d(5, 5)));
        }
        // C11: worker count
        "pool.c11" => {
            v.push(all("max1", vec![(0, 1, 0)], 4, &["Return", "Panic", "Suspend", "Delay5"], &[0], d(3, 3), &["submit", "pass", "adv", "cancel", "stop"], d(5, 7)));
            v.push(all("max2", vec![(0, 2, 0)], 4, &["Return", "Suspend", "Delay5", "CancelPrev"], &[0], d(3, 3), &["submit", "pass", "adv", "cancel", "stop", "cobad"], d(5, 7)));
            v.push(all("min1", vec![(1, 2, 0)], 4, &["Return", "Delay5", "Panic"], &[0], d(2, 3), &["submit", "cancel", "stop"], d(4, 6)));
            v.push(all("keepalive", vec![(0, 2, 5 * MS)], 4, &["Return", "Suspend", "Delay5"], &[0], d(2, 3), &["submit", "pass", "adv", "cancel", "stop"], d(5, 7)));
            // a keep-alive longer than any stop timeout: idle workers must still leave a stopping pool
            v.push(all("keepalive-long", vec![(0, 2, 3000 * MS)], 4, &["Return", "Delay5"], &[0], d(2, 3), &["submit", "pass", "adv", "stop"], d(4, 6)));
            // plain coroutines handed in through submit_co count against the maximum too
            v.push(all("direct-coroutines", vec![(0, 2, 0)], 4, &["Return", "Delay5"], &[0], d(2, 2), &["submit", "pass", "adv", "co", "stop"], d(5, 7)));
        }
        // C12: lifecycle
        "pool.c12" => {
            v.push(all("lifecycle", vec![(0, 1, 0)], 4, &["Return", "Delay5", "Delay5x2"], &[0], d(3, 3), &["submit", "pass", "adv", "wait", "cancel", "stop", "join"], d(5, 8)));
            v.push(all("stopping-window", vec![(0, 2, 0)], 4, &["Return", "SubmitInside", "Delay100"], &[0], d(2, 3), &["submit", "pass", "adv", "stop"], d(4, 7)));
            v.push(all("lifecycle-2", vec![(0, 2, 0)], 4, &["Return", "Suspend"], &[0], d(2, 3), &["submit", "pass", "wait", "stop", "join"], d(5, 8)));
            // a task of one pool waits on the other pool, which may have been stopped meanwhile
            v.push(all("wait-on-the-other-pool", vec![(0, 1, 0), (0, 1, 0)], 2, &["Return", "WaitOtherPool"], &[0], d(2, 2), &["submit", "pass", "stop"], d(4, 7)));
        }
        // C13: cancel isolation
        "pool.c13" => {
            v.push(all("max1", vec![(0, 1, 0)], 4, &["Return", "Delay5", "Suspend", "CancelSelf", "CancelPrev"], &[0], d(3, 3), &["submit", "pass", "adv", "cancel", "join"], d(5, 7)));
            v.push(all("max2", vec![(0, 2, 0)], 4, &["Return", "Delay5", "Suspend", "CancelPrev"], &[0], d(3, 3), &["submit", "pass", "adv", "cancel", "join"], d(5, 7)));
            v.push(all("disowned-results", vec![(0, 1, 0)], 4, &["Return", "Delay5"], &[0], d(2, 3), &["submit", "pass", "adv", "cancel", "clean"], d(5, 7)));
            // two pools sharing the queue: a task accepted by one pool may be popped (and found cancelled) by the other
            v.push(all("two-pools", vec![(0, 1, 0), (0, 1, 0)], 2, &["Return", "Delay5"], &[0], d(2, 3), &["submit", "pass", "cancel", "join"], d(5, 7)));
        }
        _ => {}
    }
    v
}

pub fn run(scen: &str, tier: &str, rep: &mut Report) -> bool {
    let cfgs = configs(scen, tier);
    if cfgs.is_empty() {
        return false;
    }
    let cfg = RunCfg { hang_after: Duration::from_millis(3500), max_wall: Duration::from_secs(if tier == "thorough" { 3000 } else { 120 }), ..RunCfg::default() };
    let budget = Budget::secs(if tier == "thorough" { 2400 } else { 50 });
    let mut cases: Vec<Case> = cfgs.iter().flat_map(|c| partition(c, 2, 40)).collect();
    // share the wall budget between the children (16 run at a time)
    let total_secs: u64 = if tier == "thorough" { 1800 } else { 40 };
    let per_child = (total_secs * 16 / cases.len().max(1) as u64).clamp(if tier == "thorough" { 20 } else { 15 }, total_secs);
    for c in &mut cases {
        c.deadline_secs = per_child;
    }
    let (mut st, mut tr, mut ex) = (0u64, 0u64, 0u64);
    let scen_s = scen.to_string();
    let mut bounds = Vec::new();
    let mut per_cfg: std::collections::BTreeMap<String, (u64, u64)> = std::collections::BTreeMap::new();
    sweep(&cases, 1, rep, &cfg, &budget, exec, |case, res: &ChildResult, rep| {
        let c = &case.cfg;
        if !res.exit.ok() {
            let at = res.last("at").map(|a| a["h"].clone()).unwrap_or(json!([]));
            let opk = res.last("op").and_then(|o| o["k"].as_u64());
            let hung_op = match res.last("op").map(|o| o["k"].clone()) {
                Some(Value::String(s)) => Some(json!(s)),
                _ => opk.and_then(|k| at.as_array().and_then(|a| a.get(k as usize).cloned())),
            };
            let kind = hung_op.as_ref().and_then(Value::as_str).map(|s| s.split('(').next().unwrap_or("").to_string()).unwrap_or_default();
            let (prop, clause) = match (res.exit.describe().as_str(), kind.as_str()) {
                ("hung", "stop") => ("C12", "stop-returns"),
                ("hung", "submit") => ("C04", "submission-terminates"),
                ("hung", "wait" | "join") => ("C12", "wait-returns"),
                ("hung", _) => ("C01", "scheduling-pass-terminates"),
                _ => ("C12", "process-survives"),
            };
            rep.violation_for(prop, &format!("{scen_s}/{clause}/{}:{}", res.exit.describe(), kind),
                format!("config {} history {at}: the child {} in operation {hung_op:?}", c.to_json(), res.exit.describe()),
                json!({"engine":"seqx","scenario":scen_s,"config":c.to_json(),"history":at}));
            return;
        }
        for v in res.find("viol") {
            rep.violation_for(
                ["C01", "C02", "C04", "C05", "C11", "C12", "C13"].iter().copied().find(|p| Some(*p) == v["property"].as_str()).unwrap_or("C12"),
                &format!("{scen_s}/{}/{}", v["clause"].as_str().unwrap(), v["class"].as_str().unwrap()),
                format!("config {} history {}: {}", c.name, v["history"], v["detail"].as_str().unwrap()),
                json!({"engine":"seqx","scenario":scen_s,"config":c.to_json(),"history":v["history"]}),
            );
        }
        if let Some(d) = res.last("done") {
            st += d["states"].as_u64().unwrap();
            tr += d["transitions"].as_u64().unwrap();
            ex += d["execs"].as_u64().unwrap();
            for w in d["witnesses"].as_array().unwrap() {
                rep.witness(w.as_str().unwrap());
            }
            if d["capped"].as_bool().unwrap_or(false) {
                rep.cap(&format!("{}: per-child wall budget hit below prefix {:?}", c.name, case.prefix.iter().map(Op::to_json).collect::<Vec<_>>()));
            }
            let e = per_cfg.entry(c.name.clone()).or_insert((0, 0));
            e.0 += d["states"].as_u64().unwrap();
            e.1 += d["transitions"].as_u64().unwrap();
            let base = e.0;
            for i in 0..d["states"].as_u64().unwrap().min(500) {
                if rep.nontrivial.len() < 20000 && case.prefix.len() >= 2 {
                    let _ = rep.nontrivial.insert(format!("{}#{}", c.name, base + i));
                }
            }
        }
    });
    for c in &cfgs {
        let (s_, t_) = per_cfg.get(&c.name).copied().unwrap_or((0, 0));
        bounds.push(json!({"config": c.to_json(), "states": s_, "transitions": t_}));
    }
    rep.evaluations = ex;
    rep.states = st;
    rep.transitions = tr;
    rep.bounds = json!({"configurations": bounds, "partitioning": "the search below every history of length 2 runs in its own forked child (dedup per child)", "dedup_key": "per pool (state, running size, queued size) + per task (pool, program, priority, accepted, cancelled, steps executed, finished, result taken) + recent delays",
        "after_each_history": "every pool is driven to quiescence and the end-state clauses are checked"});
    rep.sample(json!({"config": cfgs[0].to_json(), "history": ["submit(P0,Return,prio 0)", "pass(P0)", "wait(P0,T0,5ms)"]}));
    rep.notes.push("distinct_nontrivial counts states below prefixes of length >= 2, capped at 500 per child".into());
    true
}

pub fn replay(v: &Value, em: &mut Emitter) -> bool {
    let (Some(c), Some(h)) = (v.get("config").and_then(Cfg::from_json), v.get("history").and_then(Value::as_array)) else { return false };
    let h: Vec<Op> = h.iter().filter_map(Op::from_json).collect();
    std::panic::set_hook(Box::new(|_| {}));
    em.emit(json!({"t":"config","config":c.to_json(),"history":h.iter().map(Op::to_json).collect::<Vec<_>>()}));
    let fd = em.raw_fd();
    let mut e2 = Emitter::from_fd(fd);
    let out = run_history(&c, &h, Some(&mut e2));
    em.emit(json!({"t":"end","violations":out.viols.iter().map(|v| json!({"property":v.property,"clause":v.clause,"class":v.class,"detail":v.detail})).collect::<Vec<_>>()}));
    true
}
