//! C19 – socket timeout options are tracked per live socket without crashing.
//! All histories (no dedup) over two descriptor slots: set SO_RCVTIMEO/SO_SNDTIMEO, ask which
//! limit a hooked call applies, close through the hooked close, reopen on the SAME descriptor
//! number (reuse is forced with dup2). Reference model: slot -> current option values.
use crate::explore::{sweep, Budget};
use crate::report::Report;
use crate::runner::{ChildResult, Emitter, RunCfg};
use open_coroutine_core::net::verif_facade::SyncLoop;
use open_coroutine_core::syscall as sc;
use serde_json::{json, Value};
use std::time::Duration;

#[derive(Clone, Copy, Debug, PartialEq, Eq)]
pub enum Op {
    /// (slot, 0 = RCV / 1 = SND, value index)
    Set(usize, usize, usize),
    /// (slot, 0 = read side / 1 = write side): which limit does a hooked call apply now?
    Io(usize, usize),
    Close(usize),
    /// hooked close whose kernel call releases the descriptor but reports -1/EINTR (as Linux may)
    CloseEintr(usize),
    Open(usize),
}

/// option values: (tv_sec, tv_usec)
/// (0, 2_000_000) is rejected by the kernel (EDOM): the option keeps its previous value
const VALS: [(i64, i64); 5] = [(0, 0), (0, 8000), (0, 2_000_000), (0, 30_000), (-1, 0)];

/// an unlimited call is cut off by the scripted kernel after this much virtual time
const CAP_NS: u64 = 100_000_000;

thread_local! {
    /// the scripted kernel: would-block until `until` (virtual ns), then data
    static UNTIL: std::cell::Cell<u64> = const { std::cell::Cell::new(0) };
    static WAITS: std::cell::Cell<u32> = const { std::cell::Cell::new(0) };
}

fn k_answer(len: usize) -> isize {
    if open_coroutine_core::common::now() >= UNTIL.with(std::cell::Cell::get) {
        return len.min(1) as isize;
    }
    sc::set_errno(libc::EAGAIN);
    -1
}
extern "C" fn k_read(_: i32, _: *mut std::ffi::c_void, len: usize) -> isize {
    k_answer(len)
}
extern "C" fn k_recv(_: i32, _: *mut std::ffi::c_void, len: usize, _: i32) -> isize {
    k_answer(len)
}
extern "C" fn k_readv(_: i32, _: *const libc::iovec, _: i32) -> isize {
    k_answer(1)
}
extern "C" fn k_write(_: i32, _: *const std::ffi::c_void, len: usize) -> isize {
    k_answer(len)
}
extern "C" fn k_send(_: i32, _: *const std::ffi::c_void, len: usize, _: i32) -> isize {
    k_answer(len)
}
extern "C" fn k_writev(_: i32, _: *const libc::iovec, _: i32) -> isize {
    k_answer(1)
}

/// readiness waits are answered "nothing became ready": the requested time passes
fn wait_hook(_fd: i32, _write: bool, timeout_ns: u64) -> i32 {
    WAITS.with(|w| w.set(w.get() + 1));
    open_coroutine_core::verif::clock_set(open_coroutine_core::common::now().saturating_add(timeout_ns));
    1
}

/// how long do the hooked calls of one direction really wait on this descriptor before they give up?
/// (name of the call, virtual ns waited, return value)
fn measured(fd: i32, write: bool) -> Vec<(&'static str, u64, isize)> {
    let mut out = Vec::new();
    let mut b = [0u8; 4];
    let iov = [libc::iovec { iov_base: b.as_mut_ptr().cast(), iov_len: 4 }];
    for call in if write { ["write", "send", "writev"] } else { ["read", "recv", "readv"] } {
        let t0 = open_coroutine_core::common::now();
        UNTIL.with(|u| u.set(t0 + CAP_NS));
        let r: isize = match call {
            "read" => { let f: extern "C" fn(i32, *mut std::ffi::c_void, usize) -> isize = k_read; sc::read(Some(&f), fd, b.as_mut_ptr().cast(), 4) }
            "recv" => { let f: extern "C" fn(i32, *mut std::ffi::c_void, usize, i32) -> isize = k_recv; sc::recv(Some(&f), fd, b.as_mut_ptr().cast(), 4, 0) }
            "readv" => { let f: extern "C" fn(i32, *const libc::iovec, i32) -> isize = k_readv; sc::readv(Some(&f), fd, iov.as_ptr(), 1) }
            "write" => { let f: extern "C" fn(i32, *const std::ffi::c_void, usize) -> isize = k_write; sc::write(Some(&f), fd, b.as_ptr().cast(), 4) }
            "send" => { let f: extern "C" fn(i32, *const std::ffi::c_void, usize, i32) -> isize = k_send; sc::send(Some(&f), fd, b.as_ptr().cast(), 4, 0) }
            _ => { let f: extern "C" fn(i32, *const libc::iovec, i32) -> isize = k_writev; sc::writev(Some(&f), fd, iov.as_ptr(), 1) }
        };
        out.push((call, open_coroutine_core::common::now() - t0, r));
    }
    out
}

fn val_ns(v: usize) -> u64 {
    let (s, u) = VALS[v];
    let ns = (s.max(0) as u64) * 1_000_000_000 + (u.max(0) as u64) * 1000;
    if ns == 0 { u64::MAX } else { ns }
}

impl Op {
    fn to_json(self) -> Value {
        match self {
            Op::Set(s, o, v) => json!(format!("set(slot{s},{},{}s{}us)", ["SO_RCVTIMEO", "SO_SNDTIMEO"][o], VALS[v].0, VALS[v].1)),
            Op::Io(s, o) => json!(format!("io(slot{s},{})", ["read", "write"][o])),
            Op::Close(s) => json!(format!("close(slot{s})")),
            Op::CloseEintr(s) => json!(format!("close-reporting-EINTR(slot{s})")),
            Op::Open(s) => json!(format!("open(slot{s})")),
        }
    }
    fn from_json(v: &Value) -> Option<Op> {
        let s = v.as_str()?;
        let slot = |r: &str| -> Option<usize> { r.strip_prefix("slot")?.chars().next()?.to_digit(10).map(|d| d as usize) };
        if let Some(r) = s.strip_prefix("set(") {
            let parts: Vec<&str> = r.trim_end_matches(')').split(',').collect();
            let o = usize::from(parts[1] == "SO_SNDTIMEO");
            let v = VALS.iter().position(|(a, b)| format!("{a}s{b}us") == parts[2])?;
            return Some(Op::Set(slot(parts[0])?, o, v));
        }
        if let Some(r) = s.strip_prefix("io(") {
            let parts: Vec<&str> = r.trim_end_matches(')').split(',').collect();
            return Some(Op::Io(slot(parts[0])?, usize::from(parts[1] == "write")));
        }
        if let Some(r) = s.strip_prefix("close(") {
            return Some(Op::Close(slot(r)?));
        }
        if let Some(r) = s.strip_prefix("close-reporting-EINTR(") {
            return Some(Op::CloseEintr(slot(r)?));
        }
        if let Some(r) = s.strip_prefix("open(") {
            return Some(Op::Open(slot(r)?));
        }
        None
    }
}

fn enabled(hist: &[Op], nvals: usize) -> Vec<Op> {
    let mut open = [true, true];
    for o in hist {
        match o {
            Op::Close(s) | Op::CloseEintr(s) => open[*s] = false,
            Op::Open(s) => open[*s] = true,
            _ => {}
        }
    }
    let mut v = Vec::new();
    for s in 0..2 {
        if open[s] {
            for o in 0..2 {
                for val in 0..nvals {
                    v.push(Op::Set(s, o, val));
                }
            }
            for o in 0..2 {
                v.push(Op::Io(s, o));
            }
            v.push(Op::Close(s));
            v.push(Op::CloseEintr(s));
        } else {
            v.push(Op::Open(s));
        }
    }
    v
}

unsafe fn fresh_socket_at(num: i32) {
    let mut sv = [0; 2];
    assert_eq!(0, libc::socketpair(libc::AF_UNIX, libc::SOCK_STREAM, 0, sv.as_mut_ptr()));
    assert_eq!(num, libc::dup2(sv[0], num));
    libc::close(sv[0]);
    libc::close(sv[1]);
}

/// Run one history on descriptor numbers base, base+1. Err((clause, class, detail)).
fn run_history(hist: &[Op], base: i32) -> Result<(), (String, String, String)> {
    unsafe {
        fresh_socket_at(base);
        fresh_socket_at(base + 1);
    }
    // reference: per slot (rcv, snd) value index
    let mut model = [[0usize; 2]; 2];
    let mut open = [true, true];
    let mut reopened = [false, false];
    let mut res = Ok(());
    for (k, op) in hist.iter().enumerate() {
        let at = |w: String| format!("op #{k} {}: {w}", op.to_json());
        match *op {
            Op::Set(s, o, v) => {
                let tv = libc::timeval { tv_sec: VALS[v].0, tv_usec: VALS[v].1 };
                let name = if o == 0 { libc::SO_RCVTIMEO } else { libc::SO_SNDTIMEO };
                let r = sc::setsockopt(None, base + s as i32, libc::SOL_SOCKET, name, std::ptr::from_ref(&tv).cast(), size_of::<libc::timeval>() as u32);
                if r == 0 {
                    model[s][o] = v;
                }
            }
            Op::Io(s, o) => {
                let fd = base + s as i32;
                let applied = if o == 0 { sc::recv_time_limit(fd) } else { sc::send_time_limit(fd) };
                let want = val_ns(model[s][o]);
                // cross-check the reference model with the kernel
                let mut cur: libc::timeval = unsafe { std::mem::zeroed() };
                let mut len = size_of::<libc::timeval>() as u32;
                let name = if o == 0 { libc::SO_RCVTIMEO } else { libc::SO_SNDTIMEO };
                assert_eq!(0, unsafe { libc::getsockopt(fd, libc::SOL_SOCKET, name, std::ptr::from_mut(&mut cur).cast(), &mut len) });
                let kernel_ns = (cur.tv_sec as u64) * 1_000_000_000 + (cur.tv_usec as u64) * 1000;
                let kernel_zero = kernel_ns == 0;
                if kernel_zero != (want == u64::MAX) {
                    res = Err(("MACHINERY".into(), "-".into(), at(format!("reference model says {want}ns, the kernel holds {kernel_ns}ns"))));
                    break;
                }
                if applied != want {
                    let class = if reopened[s] { "after-close-and-descriptor-reuse" } else { "same-socket" };
                    res = Err(("applied-limit-equals-current-option".into(), class.into(), at(format!("a hooked {} on this socket applies a limit of {applied}ns, the socket's current option value is {}", ["read", "write"][o], if want == u64::MAX { "0 (no limit)".to_string() } else { format!("{want}ns") }))));
                    break;
                }
                // ... and what the hooked calls of that direction really do when the kernel keeps
                // answering would-block: give up after the limit, or go on waiting (no limit)
                let mut bad = None;
                for (call, waited, r) in measured(fd, o == 1) {
                    let ok = if want == u64::MAX { r > 0 && waited >= CAP_NS } else { r == -1 && waited >= want && waited <= want + 10_000_000 };
                    if !ok && bad.is_none() {
                        bad = Some(format!("a hooked {call} whose kernel call keeps answering would-block returned {r} after {waited}ns of virtual time; the socket's current option value is {}", if want == u64::MAX { "0 (no limit: it has to go on waiting)".to_string() } else { format!("{want}ns") }));
                    }
                }
                if let Some(d) = bad {
                    let class = if reopened[s] { "after-close-and-descriptor-reuse" } else { "same-socket" };
                    res = Err(("hooked-call-waits-as-long-as-the-option-says".into(), class.into(), at(d)));
                    break;
                }
            }
            Op::Close(s) => {
                let _ = sc::close(None, base + s as i32);
                open[s] = false;
            }
            Op::CloseEintr(s) => {
                extern "C" fn k_close(fd: i32) -> i32 {
                    unsafe { libc::close(fd) };
                    sc::set_errno(libc::EINTR);
                    -1
                }
                let f: extern "C" fn(i32) -> i32 = k_close;
                let _ = sc::close(Some(&f), base + s as i32);
                open[s] = false;
            }
            Op::Open(s) => {
                unsafe { fresh_socket_at(base + s as i32) };
                open[s] = true;
                reopened[s] = true;
                model[s] = [0, 0];
            }
        }
    }
    // leave nothing behind: close through the hook (which is what must forget the cached limits)
    for s in 0..2 {
        if open[s] {
            let _ = sc::close(None, base + s as i32);
        }
    }
    res
}

#[derive(Clone)]
struct Case {
    prefix: Vec<Op>,
    depth: usize,
    nvals: usize,
}

fn exec(c: &Case, em: &mut Emitter) {
    std::panic::set_hook(Box::new(|_| {}));
    let lp = SyncLoop::new("c19-loop", 128 * 1024, 0, 1, 0).expect("loop");
    lp.enter();
    open_coroutine_core::verif::clock_enable(1_000_000_000_000);
    open_coroutine_core::verif::set_wait_hook(Some(wait_hook));
    let mut n = 0u64;
    let mut stack: Vec<Vec<Op>> = vec![c.prefix.clone()];
    let mut sigs: Vec<String> = Vec::new();
    // breadth-first so that the first trace per signature is the shortest
    let mut frontier = std::collections::VecDeque::from(std::mem::take(&mut stack));
    while let Some(h) = frontier.pop_front() {
        em.emit(json!({"t":"at","h":h.iter().map(|o| o.to_json()).collect::<Vec<_>>()}));
        let base = 200 + 2 * ((n % 9000) as i32);
        n += 1;
        if let Err((clause, class, detail)) = run_history(&h, base) {
            let sig = format!("{clause}/{class}");
            if !sigs.contains(&sig) {
                sigs.push(sig);
                em.emit(json!({"t":"viol","clause":clause,"class":class,"detail":detail,"history":h.iter().map(|o| o.to_json()).collect::<Vec<_>>()}));
            }
            continue;
        }
        if h.len() < c.depth {
            for op in enabled(&h, c.nvals) {
                let mut x = h.clone();
                x.push(op);
                frontier.push_back(x);
            }
        }
    }
    em.emit(json!({"t":"done","n":n}));
    lp.leave();
    lp.forget();
}

pub fn run(tier: &str, rep: &mut Report) {
    // (depth, number of option values); the two slots are interchangeable, so the first operation
    // always goes to slot 0
    let cfgs: Vec<(usize, usize)> = if tier == "thorough" { vec![(6, 3), (5, 5)] } else { vec![(5, 3)] };
    let mut cases = Vec::new();
    for (depth, nvals) in &cfgs {
        cases.push(Case { prefix: vec![], depth: 0, nvals: *nvals });
        for op in enabled(&[], *nvals) {
            if !matches!(op, Op::Set(0, ..) | Op::Io(0, _) | Op::Close(0) | Op::CloseEintr(0)) {
                continue;
            }
            cases.push(Case { prefix: vec![op], depth: 1, nvals: *nvals });
            for op2 in enabled(&[op], *nvals) {
                cases.push(Case { prefix: vec![op, op2], depth: *depth, nvals: *nvals });
            }
        }
    }
    rep.bounds = json!({"slots": 2, "depth_and_values": cfgs.iter().map(|(d, n)| json!({"depth": d, "values": VALS.iter().take(*n).map(|(s, u)| format!("{s}s{u}us")).collect::<Vec<_>>()})).collect::<Vec<_>>(),
        "symmetry": "the first operation goes to slot 0 (the slots are interchangeable)",
        "rejected_value": "0s2000000us is refused by the kernel with EDOM and must leave the applied limit alone",
        "ops": ["set(slot, SO_RCVTIMEO|SO_SNDTIMEO, value)", "io(slot, read|write)", "close(slot) through the hooked close", "the same with a kernel close that releases the descriptor but reports EINTR", "open(slot) on the same descriptor number"],
        "io_step": "compares send_time_limit/recv_time_limit with the option value AND measures, under a scripted kernel that keeps answering would-block, how long read/recv/readv resp. write/send/writev really wait",
        "dedup": "none: every history is executed"});
    rep.require(&["histories_with_descriptor_reuse"]);
    let cfg = RunCfg { hang_after: Duration::from_millis(4000), ..RunCfg::default() };
    let budget = Budget::secs(if tier == "thorough" { 1200 } else { 50 });
    let mut total = 0u64;
    sweep(&cases, 1, rep, &cfg, &budget, exec, |c, res: &ChildResult, rep| {
        let _ = c;
        if !res.exit.ok() {
            let at = res.last("at").map(|a| a["h"].clone()).unwrap_or(json!([]));
            let last = at.as_array().and_then(|a| a.last().cloned()).and_then(|v| v.as_str().map(|s| s.split('(').next().unwrap_or("").to_string())).unwrap_or_default();
            let nsets = at.as_array().map_or(0, |a| a.iter().filter(|o| o.as_str().is_some_and(|s| s.starts_with("set("))).count());
            rep.violation(&format!("c19.opts/process-survives/{}:{last}:{}", res.exit.describe(), if nsets >= 2 { "repeated-set" } else { "set-after-io" }),
                format!("history {at}: the process {} in the last operation", res.exit.describe()), json!({"engine":"seqx","scenario":"c19.opts","history":at}));
            return;
        }
        for v in res.find("viol") {
            if v["clause"] == "MACHINERY" {
                rep.machinery_errors.push(format!("c19: {}", v["detail"]));
                continue;
            }
            rep.violation(&format!("c19.opts/{}/{}", v["clause"].as_str().unwrap(), v["class"].as_str().unwrap()),
                format!("history {}: {}", v["history"], v["detail"].as_str().unwrap()), json!({"engine":"seqx","scenario":"c19.opts","history":v["history"]}));
        }
        if let Some(d) = res.last("done") {
            total += d["n"].as_u64().unwrap_or(0);
            rep.witness("histories_with_descriptor_reuse");
        }
    });
    rep.sample(json!({"history": ["set(slot0,SO_RCVTIMEO,0s8000us)", "close(slot0)", "open(slot0)", "io(slot0,read)"]}));
    rep.evaluations = total;
    rep.states = total;
    rep.transitions = total.saturating_sub(1);
    for i in 0..total.min(5000) {
        let _ = rep.nontrivial.insert(format!("{i}"));
    }
    rep.notes.push("every enumerated history is distinct; distinct_nontrivial capped at 5000".into());
}

pub fn replay(v: &Value, em: &mut Emitter) -> bool {
    let Some(h) = v.get("history").and_then(Value::as_array) else { return false };
    let h: Vec<Op> = h.iter().filter_map(Op::from_json).collect();
    let lp = SyncLoop::new("c19-loop", 128 * 1024, 0, 1, 0).expect("loop");
    lp.enter();
    open_coroutine_core::verif::clock_enable(1_000_000_000_000);
    open_coroutine_core::verif::set_wait_hook(Some(wait_hook));
    em.emit(json!({"t":"history","ops":h.iter().map(|o| o.to_json()).collect::<Vec<_>>()}));
    match run_history(&h, 200) {
        Ok(()) => em.emit(json!({"t":"ok"})),
        Err((c, cl, d)) => em.emit(json!({"t":"viol","clause":c,"class":cl,"detail":d})),
    }
    lp.leave();
    lp.forget();
    true
}
