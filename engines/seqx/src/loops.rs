//! C01 / C12 at the level of the real event-loop threads: tasks accepted by `EventLoops` right before
//! `EventLoops::stop()` still run, exactly once, before stop reports success.
//! This scenario runs the REAL loop threads (their main loop is not reachable through the
//! synchronous facade). The thread schedule is the operating system's, i.e. NOT controlled: what is
//! enumerated exhaustively is the input space (loops x tasks x program x idle time before the
//! submissions x gap before stop). For a correct runtime the outcome is the same under every
//! schedule: each accepted task ran exactly once when stop() has returned Ok.
//! ONE scheduling decision is controlled: through the pause point at the first instruction of a loop
//! thread (`loop:thread-start`) the harness either lets the loop threads start at once or holds them
//! there until the caller is inside `EventLoops::stop()` (the two orders of "loop thread registers
//! itself as started" and "stop looks at the count of started loops"; the second order was first seen
//! as a 1-in-72 flake of the uncontrolled runs).
use crate::explore::{sweep, Budget};
use crate::report::Report;
use crate::runner::{ChildResult, Emitter, RunCfg};
use open_coroutine_core::config::Config;
use open_coroutine_core::net::EventLoops;
use open_coroutine_core::scheduler::SchedulableSuspender;
use serde_json::{json, Value};
use std::sync::atomic::{AtomicU32, Ordering};
use std::time::Duration;

#[derive(Clone, Debug)]
pub struct Case {
    loops: usize,
    tasks: usize,
    /// 0 = return at once, 1 = yield once, 2 = cooperative delay of 5 ms
    prog: usize,
    idle_ms: u64,
    gap_ms: u64,
    /// hold every loop thread at its first instruction until stop() has been entered
    hold: bool,
}

const PROGS: [&str; 3] = ["return", "yield-once", "delay-5ms"];

impl Case {
    fn to_json(&self) -> Value {
        json!({"event_loops": self.loops, "tasks": self.tasks, "program": PROGS[self.prog], "idle_before_submitting_ms": self.idle_ms, "gap_before_stop_ms": self.gap_ms, "loop_threads_held_at_their_first_instruction_until_stop_is_entered": self.hold})
    }
    fn from_json(v: &Value) -> Option<Case> {
        Some(Case {
            loops: v.get("event_loops")?.as_u64()? as usize,
            tasks: v.get("tasks")?.as_u64()? as usize,
            prog: PROGS.iter().position(|p| Some(*p) == v.get("program").and_then(Value::as_str))?,
            idle_ms: v.get("idle_before_submitting_ms")?.as_u64()?,
            gap_ms: v.get("gap_before_stop_ms")?.as_u64()?,
            hold: v.get("loop_threads_held_at_their_first_instruction_until_stop_is_entered").and_then(Value::as_bool).unwrap_or(false),
        })
    }
}

static RUNS: [AtomicU32; 8] = [const { AtomicU32::new(0) }; 8];
static HOLD: std::sync::atomic::AtomicBool = std::sync::atomic::AtomicBool::new(false);
static HELD: AtomicU32 = AtomicU32::new(0);

fn on_point(label: &'static str) {
    if label == "loop:thread-start" && HOLD.load(Ordering::SeqCst) {
        let _ = HELD.fetch_add(1, Ordering::SeqCst);
        while HOLD.load(Ordering::SeqCst) {
            std::thread::sleep(Duration::from_micros(200));
        }
    }
}

pub fn exec(c: &Case, em: &mut Emitter) {
    std::panic::set_hook(Box::new(|_| {}));
    HOLD.store(c.hold, Ordering::SeqCst);
    open_coroutine_core::verif::set_point_hook(Some(on_point));
    EventLoops::init(&Config::new(c.loops, 128 * 1024, 0, 2, 0, 0, 0, false));
    // the measured part begins when every loop thread exists (a stop() issued before a loop thread has
    // even registered itself as started returns at once: a start-up race this scenario, which does not
    // control schedules, cannot decide). Joining a warm-up task is no option: with two loops the task
    // may run on the other loop and the join then never returns (known finding of C02).
    let t0 = std::time::Instant::now();
    loop {
        let n = std::fs::read_dir("/proc/self/task").map(|d| d.filter_map(Result::ok).filter(|e| std::fs::read_to_string(e.path().join("comm")).is_ok_and(|c| c.starts_with("open-coroutine-"))).count()).unwrap_or(0);
        if n >= c.loops {
            break;
        }
        if t0.elapsed() > Duration::from_secs(20) {
            em.emit(json!({"t":"warmup_failed"}));
            return;
        }
        std::thread::sleep(Duration::from_millis(2));
    }
    std::thread::sleep(Duration::from_millis(c.idle_ms));
    let mut accepted = Vec::new();
    let mut handles = Vec::new();
    for i in 0..c.tasks {
        let prog = c.prog;
        let h = EventLoops::submit_task(Some(format!("loops-stop-{i}")), move |_| {
            match prog {
                1 => SchedulableSuspender::current().expect("suspender").suspend(),
                2 => SchedulableSuspender::current().expect("suspender").delay(Duration::from_millis(5)),
                _ => {}
            }
            let _ = RUNS[i].fetch_add(1, Ordering::SeqCst);
            Some(i)
        }, None, None);
        accepted.push(h.id().is_ok());
        handles.push(h);
    }
    std::thread::sleep(Duration::from_millis(c.gap_ms));
    let releaser = c.hold.then(|| {
        // every loop thread stands at its first instruction; let them go once stop() is under way
        let t0 = std::time::Instant::now();
        while (HELD.load(Ordering::SeqCst) as usize) < c.loops && t0.elapsed() < Duration::from_secs(10) {
            std::thread::sleep(Duration::from_millis(1));
        }
        std::thread::spawn(|| {
            std::thread::sleep(Duration::from_millis(40));
            HOLD.store(false, Ordering::SeqCst);
        })
    });
    let stop = EventLoops::stop(Duration::from_secs(5));
    // (give a runtime that wrongly reported success no credit for work done afterwards)
    let runs: Vec<u32> = (0..c.tasks).map(|i| RUNS[i].load(Ordering::SeqCst)).collect();
    em.emit(json!({"t":"end","stop_ok": stop.is_ok(), "runs": runs, "accepted": accepted, "held": HELD.load(Ordering::SeqCst)}));
    if let Some(r) = releaser {
        let _ = r.join();
    }
    std::mem::forget(handles);
}

pub fn judge(c: &Case, res: &ChildResult, rep: &mut Report) {
    let replay = || json!({"engine":"seqx","scenario":"loops.stop","case":c.to_json()});
    if !res.exit.ok() {
        rep.violation(&format!("loops.stop/process-survives/{}", res.exit.describe()), format!("{}: the process {}", c.to_json(), res.exit.describe()), replay());
        return;
    }
    if res.last("warmup_failed").is_some() {
        rep.machinery_errors.push(format!("loops.stop: {}: the loop threads did not appear within 20 s", c.to_json()));
        return;
    }
    let Some(e) = res.last("end") else {
        rep.machinery_errors.push("loops.stop: no end record".into());
        return;
    };
    let _ = rep.nontrivial.insert(c.to_json().to_string());
    let runs: Vec<u64> = e["runs"].as_array().unwrap().iter().map(|x| x.as_u64().unwrap()).collect();
    if let Some((i, n)) = runs.iter().enumerate().find(|(_, n)| **n > 1) {
        rep.violation("loops.stop/task-runs-at-most-once/-", format!("{}: task {i} ran {n} times", c.to_json()), replay());
        return;
    }
    if e["stop_ok"] == true {
        let class = if c.hold { "loop-threads-not-yet-registered-as-started" } else if c.idle_ms > 50 { "submitted-to-loops-idle-for-120ms" } else { "submitted-to-loops-idle-for-50ms" };
        if let Some((i, _)) = runs.iter().enumerate().find(|(_, n)| **n == 0) {
            rep.violation_for("C12", &format!("loops.stop/accepted-tasks-ran-when-stop-succeeds/{class}"), format!("{}: EventLoops::stop() returned Ok but task {i}, accepted before the stop, never ran (runs per task {runs:?})", c.to_json()), replay());
            return;
        }
        rep.witness("stops_that_succeeded_with_all_tasks_run");
        if c.hold && e["held"].as_u64() == Some(c.loops as u64) {
            rep.witness("stops_entered_before_any_loop_thread_had_run_its_first_instruction");
        }
    } else {
        rep.witness("stops_that_timed_out");
        rep.notes.push(format!("stop() timed out (5 s) for {} - runs per task {runs:?}", c.to_json()));
    }
}

pub fn cases(tier: &str) -> Vec<Case> {
    let mut v = Vec::new();
    for loops in [1usize, 2] {
        for tasks in if tier == "thorough" { vec![1usize, 2, 3, 4, 6] } else { vec![1usize, 2, 4] } {
            for prog in 0..PROGS.len() {
                // held loop threads: the idle time has no meaning (nothing runs before stop is entered)
                v.push(Case { loops, tasks, prog, idle_ms: 0, gap_ms: 0, hold: true });
                for idle_ms in [50u64, 120] {
                    for gap_ms in [0u64, 3] {
                        v.push(Case { loops, tasks, prog, idle_ms, gap_ms, hold: false });
                    }
                }
            }
        }
    }
    v
}

pub fn run(tier: &str, rep: &mut Report) {
    let cs = cases(tier);
    rep.bounds = json!({"event_loops": [1, 2], "tasks": if tier == "thorough" { json!([1, 2, 3, 4, 6]) } else { json!([1, 2, 4]) }, "programs": PROGS, "idle_before_submitting_ms": [50, 120], "gap_before_stop_ms": [0, 3], "loop_threads": ["start at once", "held at their first instruction until stop() is entered (released 40 ms later)"], "cases": cs.len(),
        "schedule": "one decision controlled (loop thread's first instruction before / after stop() is entered); otherwise NOT controlled: the real loop threads run under the operating system's scheduler; only the inputs are enumerated"});
    rep.require(&["stops_that_succeeded_with_all_tasks_run", "stops_entered_before_any_loop_thread_had_run_its_first_instruction"]);
    for c in cs.iter().step_by((cs.len() / 4).max(1)).take(4) {
        rep.sample(c.to_json());
    }
    let dflt = RunCfg::default();
    let cfg = RunCfg { hang_after: Duration::from_millis(20_000), parallel: (dflt.parallel / 2).max(1), ..dflt };
    let budget = Budget::secs(if tier == "thorough" { 600 } else { 50 });
    sweep(&cs, 1, rep, &cfg, &budget, exec, judge);
    rep.states = rep.evaluations;
    rep.transitions = rep.evaluations;
    rep.notes.push("input space enumerated exhaustively, thread schedule uncontrolled (real event-loop threads): a supplement to the schedule-controlled pool scenarios, which cannot reach the loop thread's own main loop".into());
}

pub fn replay(v: &Value, em: &mut Emitter) -> bool {
    match v.get("case").and_then(Case::from_json) {
        Some(c) => {
            exec(&c, em);
            true
        }
        None => false,
    }
}
