//! seqx – explicit-state / bounded-exhaustive exploration of the real open-coroutine crate.
//! usage: seqx run <scenario> <tier> <out.json>
//!        seqx replay <replay.json>
mod ep;
mod epseq;
mod explore;
mod report;
mod runner;
mod stk;
mod util;

mod c07;
mod c08;
mod c09;
mod c10;
mod c14;
mod c15;
mod c19;
#[cfg(feature = "preemptive")]
mod c22;
#[cfg(feature = "io_uring")]
mod uring;
mod c25;
mod conn;
mod io;
mod loops;
mod c28;
mod pool;
mod ppx;

use report::Report;
use serde_json::Value;

fn scenarios() -> Vec<(&'static str, &'static str)> {
    vec![("c07.raw", "C07"), ("c08.values", "C08"), ("c09.seq", "C09"), ("c10.sched", "C10"), ("c14.timed", "C14"), ("c15.mix", "C15"), ("c19.opts", "C19"), ("c25.local", "C25"), ("ep.wake", "C20"), ("ep.seq", "C20"), ("stk.grow", "C23"), ("c22.arrival", "C22"), ("uring.own", "C27"), ("ppx.wait", "C02"), ("ppx.stop", "C12"), ("ppx.stopwait", "C12"), ("ppx.stop2", "C12"), ("ppx.rewait", "C02"), ("ppx.wait2", "C02"), ("ppx.migrate", "C11"), ("ppx.schedmig", "C10"), ("ppx.mon", "C22"), ("stk.fault", "C24"), ("ep.interest", "C21"), ("io.c16", "C16"), ("io.c17", "C17"), ("io.c18", "C18"), ("io.conn", "C18"), ("c28.helpers", "C28"), ("pool.c01", "C01"), ("loops.stop", "C01"), ("pool.c02", "C02"), ("pool.c05", "C05"), ("pool.c11", "C11"), ("pool.c12", "C12"), ("pool.c13", "C13")]
}

fn run_scenario(name: &str, tier: &str, rep: &mut Report) -> bool {
    #[cfg(feature = "io_uring")]
    if name == "uring.own" {
        uring::run(tier, rep);
        return true;
    }
    #[cfg(feature = "preemptive")]
    if name == "c22.arrival" {
        c22::run(tier, rep);
        return true;
    }
    match name {
        "c07.raw" => c07::run(tier, rep),
        "c08.values" => c08::run(tier, rep),
        "c09.seq" => c09::run(tier, rep),
        "c10.sched" => c10::run(tier, rep, "C10"),
        "c14.timed" => c14::run(tier, rep),
        "c15.mix" => c15::run(tier, rep),
        "c19.opts" => c19::run(tier, rep),
        "c25.local" => c25::run(tier, rep),
        "c28.helpers" => c28::run(tier, rep),
        n if n.starts_with("pool.") => return pool::run(n, tier, rep),
        n if n.starts_with("ppx.") => return ppx::run(n, tier, rep),
        "io.conn" => conn::run(tier, rep),
        "loops.stop" => loops::run(tier, rep),
        n if n.starts_with("io.") => io::run(n, tier, rep),
        "ep.seq" => epseq::run(tier, rep),
        n if n.starts_with("ep.") => return ep::run(n, tier, rep),
        n if n.starts_with("stk.") => return stk::run(n, tier, rep),
        _ => return false,
    }
    true
}

fn replay_scenario(name: &str, v: &Value, em: &mut runner::Emitter) -> bool {
    #[cfg(feature = "io_uring")]
    if name == "uring.own" {
        return uring::replay(v, em);
    }
    #[cfg(feature = "preemptive")]
    if name == "c22.arrival" {
        return c22::replay(v, em);
    }
    match name {
        "c07.raw" => c07::replay(v, em),
        "c08.values" => c08::replay(v, em),
        "c09.seq" => c09::replay(v, em),
        "c10.sched" => c10::replay(v, em),
        "c14.timed" => c14::replay(v, em),
        "c15.mix" => c15::replay(v, em),
        "c19.opts" => c19::replay(v, em),
        "c25.local" => c25::replay(v, em),
        "c28.helpers" => c28::replay(v, em),
        n if n.starts_with("ppx.") => ppx::replay(n, v, em),
        n if n.starts_with("pool.") => pool::replay(v, em),
        "io.conn" => conn::replay(v, em),
        "loops.stop" => loops::replay(v, em),
        n if n.starts_with("io.") => io::replay(v, em),
        "ep.seq" => epseq::replay(v, em),
        n if n.starts_with("ep.") => ep::replay(v, em),
        n if n.starts_with("stk.") => stk::replay(v, em),
        _ => false,
    }
}

fn main() {
    let args: Vec<String> = std::env::args().collect();
    match args.get(1).map(String::as_str) {
        Some("list") => {
            for (s, p) in scenarios() {
                println!("{s} {p}");
            }
        }
        Some("run") if args.len() >= 5 => {
            let (name, tier, out) = (&args[2], &args[3], &args[4]);
            let prop = scenarios()
                .iter()
                .find(|(s, _)| s == name)
                .map(|(_, p)| *p)
                .unwrap_or_else(|| {
                    eprintln!("unknown scenario {name}");
                    std::process::exit(3)
                });
            let mut rep = Report::new(prop, name, tier);
            if !run_scenario(name, tier, &mut rep) {
                eprintln!("unknown scenario {name}");
                std::process::exit(3);
            }
            std::fs::write(out, serde_json::to_string_pretty(&rep.to_json()).unwrap()).expect("write result");
            eprintln!(
                "[seqx] {name} {tier}: evaluations={} states={} violations={} machinery_errors={} exhaustive={}",
                rep.evaluations,
                rep.states,
                rep.violations.len(),
                rep.machinery_errors.len(),
                rep.exhaustive
            );
        }
        Some("benchpool") => {
            let text = std::fs::read_to_string(&args[2]).expect("read");
            let v: Value = serde_json::from_str(&text).expect("json");
            let r = v.get("replay").unwrap_or(&v).clone();
            let c = pool::Cfg::from_json(&r["config"]).unwrap();
            let h: Vec<pool::Op> = r["history"].as_array().unwrap().iter().filter_map(pool::Op::from_json).collect();
            let res = runner::run_one(&runner::RunCfg::default(), |em| {
                let t = std::time::Instant::now();
                for _ in 0..50 {
                    let _ = pool::run_history(&c, &h, None);
                }
                em.emit(serde_json::json!({"t":"bench","ms_per_history": t.elapsed().as_secs_f64() * 1000.0 / 50.0}));
            });
            println!("{:?} {:?}", res.exit, res.records);
        }
        Some("bench") => {
            let n: usize = args.get(2).and_then(|s| s.parse().ok()).unwrap_or(2000);
            let cfg = runner::RunCfg::default();
            let t = std::time::Instant::now();
            let _ = runner::run_many(n, &cfg, |_, em| em.emit(serde_json::json!({"t":"x"})));
            println!("empty: {:.3} ms/child wall (par {})", t.elapsed().as_secs_f64() * 1e3 / n as f64, cfg.parallel);
            let c = c09::cases("quick")[500].clone();
            let t = std::time::Instant::now();
            let _ = runner::run_many(n, &cfg, |_, em| c09::exec(&c, em));
            println!("c09: {:.3} ms/child wall (par {})", t.elapsed().as_secs_f64() * 1e3 / n as f64, cfg.parallel);
        }
        Some("replay") if args.len() >= 3 => {
            let text = std::fs::read_to_string(&args[2]).expect("read replay file");
            let v: Value = serde_json::from_str(&text).expect("parse replay file");
            let r = v.get("replay").unwrap_or(&v).clone();
            let name = r.get("scenario").and_then(Value::as_str).unwrap_or("").to_string();
            let base = name.split('[').next().unwrap_or("").to_string();
            let known = std::cell::Cell::new(true);
            let res = runner::run_one(&runner::RunCfg::default(), |em| {
                if !replay_scenario(&base, &r, em) {
                    em.emit(serde_json::json!({"t":"unknown_scenario"}));
                }
            });
            if res.find("unknown_scenario").len() > 0 {
                known.set(false);
            }
            println!("replay of {name}: child {}", res.exit.describe());
            for rec in &res.records {
                println!("  {rec}");
            }
            if !known.get() {
                std::process::exit(3);
            }
        }
        _ => {
            eprintln!("usage: seqx list | run <scenario> <tier> <out.json> | replay <file>");
            std::process::exit(3);
        }
    }
}
