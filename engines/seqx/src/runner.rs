//! Fork-per-trace runner: every trace is executed from scratch in a freshly forked child of a
//! pristine, single-threaded parent. Abort / crash / hang of the child are ordinary observations.
use serde_json::Value;
use std::io::Write;
use std::os::fd::{FromRawFd, RawFd};
use std::time::{Duration, Instant};

#[derive(Debug, Clone, PartialEq, Eq)]
pub enum Exit {
    /// child called `_exit(code)`
    Code(i32),
    /// child was killed by a signal (SIGABRT, SIGSEGV, ...)
    Signal(i32),
    /// child made no progress within the wall budget and was killed by the runner
    Hung,
}

impl Exit {
    pub fn ok(&self) -> bool {
        *self == Exit::Code(0)
    }
    pub fn describe(&self) -> String {
        match self {
            Exit::Code(c) => format!("exit({c})"),
            Exit::Signal(s) => format!("signal({})", signame(*s)),
            Exit::Hung => "hung".to_string(),
        }
    }
}

pub fn signame(s: i32) -> String {
    match s {
        libc::SIGABRT => "SIGABRT".into(),
        libc::SIGSEGV => "SIGSEGV".into(),
        libc::SIGBUS => "SIGBUS".into(),
        libc::SIGKILL => "SIGKILL".into(),
        libc::SIGILL => "SIGILL".into(),
        libc::SIGFPE => "SIGFPE".into(),
        _ => format!("SIG{s}"),
    }
}

#[derive(Debug, Clone)]
pub struct ChildResult {
    pub exit: Exit,
    /// records emitted by the child, in order
    pub records: Vec<Value>,
    pub wall: Duration,
}

impl ChildResult {
    /// records as a canonical string (used for "replay twice, identical observations")
    pub fn fingerprint(&self) -> String {
        let mut s = self.exit.describe();
        for r in &self.records {
            s.push('\n');
            s.push_str(&r.to_string());
        }
        s
    }
    pub fn find(&self, tag: &str) -> Vec<&Value> {
        self.records
            .iter()
            .filter(|r| r.get("t").and_then(Value::as_str) == Some(tag))
            .collect()
    }
    pub fn last(&self, tag: &str) -> Option<&Value> {
        self.find(tag).into_iter().last()
    }
}

/// Handed to the child body; every `emit` is one line on the pipe, flushed at once so that the
/// parent has everything that happened before a crash.
pub struct Emitter {
    fd: RawFd,
}

impl Emitter {
    pub fn emit(&mut self, v: Value) {
        let mut s = v.to_string();
        s.push('\n');
        let b = s.as_bytes();
        let mut off = 0;
        while off < b.len() {
            let n = unsafe { libc::write(self.fd, b[off..].as_ptr().cast(), b.len() - off) };
            if n <= 0 {
                let e = std::io::Error::last_os_error();
                if e.kind() == std::io::ErrorKind::Interrupted {
                    continue;
                }
                unsafe { libc::_exit(97) };
            }
            off += n as usize;
        }
    }
    pub fn from_fd(fd: RawFd) -> Self {
        Emitter { fd }
    }
    pub fn raw_fd(&self) -> RawFd {
        self.fd
    }
}

static mut EMIT_FD: RawFd = -1;

/// The emitter fd of the current child (for callbacks that have no access to the `Emitter`).
pub fn child_emit(v: Value) {
    let fd = unsafe { EMIT_FD };
    if fd >= 0 {
        Emitter { fd }.emit(v);
    }
}

struct Active {
    pid: libc::pid_t,
    fd: RawFd,
    buf: Vec<u8>,
    start: Instant,
    last_progress: Instant,
    job: usize,
    killed_hung: bool,
}

pub struct RunCfg {
    pub parallel: usize,
    /// wall budget without any new record before the child is declared hung
    pub hang_after: Duration,
    /// absolute wall budget per child
    pub max_wall: Duration,
    /// scenarios in which the KERNEL decides when something arrives (io_uring completions): a violation
    /// whose re-execution diverges is re-executed this many more times and kept if it shows again at
    /// least twice (0 = every re-execution must reproduce it, the rule everywhere else)
    pub racy_confirm: u32,
}

impl Default for RunCfg {
    fn default() -> Self {
        RunCfg {
            parallel: std::env::var("SEQX_PAR")
                .ok()
                .and_then(|s| s.parse().ok())
                .unwrap_or(16),
            hang_after: Duration::from_millis(
                std::env::var("SEQX_HANG_MS")
                    .ok()
                    .and_then(|s| s.parse().ok())
                    .unwrap_or(4000),
            ),
            max_wall: Duration::from_secs(60),
            racy_confirm: 0,
        }
    }
}

fn spawn<F: Fn(usize, &mut Emitter)>(job: usize, body: &F) -> Active {
    let mut fds = [0 as RawFd; 2];
    assert_eq!(0, unsafe { libc::pipe(fds.as_mut_ptr()) }, "pipe failed");
    std::io::stdout().flush().ok();
    std::io::stderr().flush().ok();
    let pid = unsafe { libc::fork() };
    assert!(pid >= 0, "fork failed: {}", std::io::Error::last_os_error());
    if pid == 0 {
        unsafe {
            libc::close(fds[0]);
            EMIT_FD = fds[1];
            if std::env::var_os("SEQX_DEBUG").is_none() {
                let null = libc::open(b"/dev/null\0".as_ptr().cast(), libc::O_WRONLY);
                if null >= 0 {
                    libc::dup2(null, 2);
                    libc::dup2(null, 1);
                }
            }
            // the parent's death must not leave children around
            libc::prctl(libc::PR_SET_PDEATHSIG, libc::SIGKILL);
        }
        let mut em = Emitter { fd: fds[1] };
        let r = std::panic::catch_unwind(std::panic::AssertUnwindSafe(|| body(job, &mut em)));
        let code = match r {
            Ok(()) => 0,
            Err(e) => {
                let msg = e
                    .downcast_ref::<&str>()
                    .map(|s| (*s).to_string())
                    .or_else(|| e.downcast_ref::<String>().cloned())
                    .unwrap_or_else(|| "non-string panic".into());
                em.emit(serde_json::json!({"t":"harness_panic","msg":msg}));
                101
            }
        };
        unsafe { libc::_exit(code) };
    }
    unsafe {
        libc::close(fds[1]);
        let fl = libc::fcntl(fds[0], libc::F_GETFL);
        libc::fcntl(fds[0], libc::F_SETFL, fl | libc::O_NONBLOCK);
    }
    let now = Instant::now();
    Active {
        pid,
        fd: fds[0],
        buf: Vec::new(),
        start: now,
        last_progress: now,
        job,
        killed_hung: false,
    }
}

fn finish(a: Active) -> (usize, ChildResult) {
    let mut status = 0;
    loop {
        let r = unsafe { libc::waitpid(a.pid, &mut status, 0) };
        if r == a.pid {
            break;
        }
        let e = std::io::Error::last_os_error();
        assert!(e.kind() == std::io::ErrorKind::Interrupted, "waitpid: {e}");
    }
    drop(unsafe { std::fs::File::from_raw_fd(a.fd) });
    let exit = if a.killed_hung {
        Exit::Hung
    } else if libc::WIFEXITED(status) {
        Exit::Code(libc::WEXITSTATUS(status))
    } else if libc::WIFSIGNALED(status) {
        Exit::Signal(libc::WTERMSIG(status))
    } else {
        Exit::Code(-1)
    };
    let mut records = Vec::new();
    for line in a.buf.split(|b| *b == b'\n') {
        if line.is_empty() {
            continue;
        }
        match serde_json::from_slice::<Value>(line) {
            Ok(v) => records.push(v),
            Err(_) => records.push(serde_json::json!({"t":"garbled","raw":String::from_utf8_lossy(line)})),
        }
    }
    (
        a.job,
        ChildResult {
            exit,
            records,
            wall: a.start.elapsed(),
        },
    )
}

fn exit_to_json(e: &Exit) -> Value {
    match e {
        Exit::Code(c) => serde_json::json!({"code": c}),
        Exit::Signal(s) => serde_json::json!({"signal": s}),
        Exit::Hung => serde_json::json!("hung"),
    }
}

fn exit_from_json(v: &Value) -> Exit {
    if let Some(c) = v.get("code").and_then(Value::as_i64) {
        Exit::Code(c as i32)
    } else if let Some(s) = v.get("signal").and_then(Value::as_i64) {
        Exit::Signal(s as i32)
    } else {
        Exit::Hung
    }
}

/// Run `n` jobs, each in its own forked child. `body(job, emitter)` runs in the child.
/// Results are returned in job order.
///
/// `fork` is serialised inside one process, so for many jobs the parent first forks
/// `cfg.parallel` single-threaded, pristine *worker* processes; each worker claims job numbers
/// from a shared counter, forks one grandchild per job, supervises it (hang detection) and
/// ships the grandchild's exit status and records back to the parent.
pub fn run_many<F: Fn(usize, &mut Emitter)>(n: usize, cfg: &RunCfg, body: F) -> Vec<ChildResult> {
    let workers = cfg.parallel.max(1).min(n);
    if n < 24 || workers <= 1 {
        return run_many_local(n, cfg, body);
    }
    let counter = unsafe {
        let p = libc::mmap(
            std::ptr::null_mut(),
            4096,
            libc::PROT_READ | libc::PROT_WRITE,
            libc::MAP_SHARED | libc::MAP_ANONYMOUS,
            -1,
            0,
        );
        assert!(p != libc::MAP_FAILED, "mmap failed");
        &*(p as *const std::sync::atomic::AtomicUsize)
    };
    counter.store(0, std::sync::atomic::Ordering::SeqCst);
    let one = RunCfg {
        parallel: 1,
        hang_after: cfg.hang_after,
        max_wall: cfg.max_wall,
        racy_confirm: 0,
    };
    // each worker is itself a "job" of the local runner; it gets a generous budget
    let wcfg = RunCfg {
        parallel: workers,
        hang_after: cfg.max_wall + cfg.hang_after + Duration::from_secs(30),
        max_wall: Duration::from_secs(24 * 3600),
        racy_confirm: 0,
    };
    let wres = run_many_local(workers, &wcfg, |_, em| loop {
        let j = counter.fetch_add(1, std::sync::atomic::Ordering::SeqCst);
        if j >= n {
            break;
        }
        let r = run_many_local(1, &one, |_, e2| body(j, e2)).pop().expect("result");
        em.emit(serde_json::json!({
            "job": j,
            "exit": exit_to_json(&r.exit),
            "records": r.records,
            "wall_us": r.wall.as_micros() as u64,
        }));
    });
    unsafe { libc::munmap(counter as *const _ as *mut libc::c_void, 4096) };
    let mut results: Vec<Option<ChildResult>> = (0..n).map(|_| None).collect();
    for w in wres {
        assert!(w.exit.ok(), "seqx worker process died: {}", w.exit.describe());
        for rec in w.records {
            let j = rec["job"].as_u64().expect("job") as usize;
            results[j] = Some(ChildResult {
                exit: exit_from_json(&rec["exit"]),
                records: rec["records"].as_array().cloned().unwrap_or_default(),
                wall: Duration::from_micros(rec["wall_us"].as_u64().unwrap_or(0)),
            });
        }
    }
    results
        .into_iter()
        .enumerate()
        .map(|(j, r)| r.unwrap_or_else(|| panic!("no result for job {j}")))
        .collect()
}

/// Single-forker version: all children are forked by the calling process.
pub fn run_many_local<F: Fn(usize, &mut Emitter)>(n: usize, cfg: &RunCfg, body: F) -> Vec<ChildResult> {
    let mut results: Vec<Option<ChildResult>> = (0..n).map(|_| None).collect();
    let mut active: Vec<Active> = Vec::new();
    let mut next = 0usize;
    let mut tmp = [0u8; 65536];
    while next < n || !active.is_empty() {
        while next < n && active.len() < cfg.parallel.max(1) {
            active.push(spawn(next, &body));
            next += 1;
        }
        let mut pfds: Vec<libc::pollfd> = active
            .iter()
            .map(|a| libc::pollfd {
                fd: a.fd,
                events: libc::POLLIN,
                revents: 0,
            })
            .collect();
        let _ = unsafe { libc::poll(pfds.as_mut_ptr(), pfds.len() as libc::nfds_t, 5) };
        if pfds.is_empty() {
            continue;
        }
        let mut done_idx = Vec::new();
        for (i, a) in active.iter_mut().enumerate() {
            let mut eof = false;
            if pfds[i].revents != 0 {
                loop {
                    let r = unsafe { libc::read(a.fd, tmp.as_mut_ptr().cast(), tmp.len()) };
                    if r > 0 {
                        a.buf.extend_from_slice(&tmp[..r as usize]);
                        a.last_progress = Instant::now();
                    } else if r == 0 {
                        eof = true;
                        break;
                    } else {
                        break;
                    }
                }
            }
            if eof {
                done_idx.push(i);
                continue;
            }
            if !a.killed_hung
                && (a.last_progress.elapsed() > cfg.hang_after || a.start.elapsed() > cfg.max_wall)
            {
                a.killed_hung = true;
                unsafe { libc::kill(a.pid, libc::SIGKILL) };
            }
        }
        for i in done_idx.into_iter().rev() {
            let a = active.swap_remove(i);
            let (job, res) = finish(a);
            results[job] = Some(res);
        }
    }
    results.into_iter().map(|r| r.expect("job result")).collect()
}

pub fn run_one<F: Fn(&mut Emitter)>(cfg: &RunCfg, body: F) -> ChildResult {
    run_many(1, cfg, |_, em| body(em)).pop().expect("one result")
}
