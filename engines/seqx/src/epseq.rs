//! C20 (histories) – who is resumed by which readiness event, over whole wait histories.
//! One synchronous event loop with the REAL epoll instance and the virtual clock; two descriptor
//! slots A/B at fixed numbers; one or two coroutines that each run a short program of blocking
//! hooked calls (read one byte / write one byte into a full socket); a driver that, between loop
//! turns, makes a slot readable or writable, closes a slot through the hooked close and reopens a
//! new socket on the same number, lets one epoll poll fail (EINTR), or lets time pass.
//! Enumerated: every (programs, driver event sequence) combination up to the bounds.
//! Oracle: (1) when a descriptor becomes ready while coroutines are blocked on it, one of them
//! finishes its call at that very virtual instant (not a periodic wait timeout later);
//! (2) whenever the loop resumes a coroutine by token, the descriptor that coroutine is blocked on
//! is itself ready at that moment (checked with poll(2) inside the resume observer).
use crate::explore::{sweep, Budget};
use crate::report::Report;
use crate::runner::{ChildResult, Emitter, RunCfg};
use open_coroutine_core::common::now;
use open_coroutine_core::coroutine::suspender::Suspender;
use open_coroutine_core::net::verif_facade::SyncLoop;
use open_coroutine_core::scheduler::SchedulableCoroutine;
use open_coroutine_core::syscall as sc;
use serde_json::{json, Value};
use std::cell::RefCell;
use std::collections::BTreeMap;
use std::hash::{DefaultHasher, Hash, Hasher};
use std::time::Duration;

const T0: u64 = 1_700_000_000_000_000_000;

#[derive(Clone, Copy, Debug, PartialEq, Eq, Hash)]
pub enum Step {
    R(usize),
    W(usize),
}

#[derive(Clone, Copy, Debug, PartialEq, Eq, Hash)]
pub enum Ev {
    Rd(usize),
    Wr(usize),
    Reopen(usize),
    Fault,
    Idle,
}

const SL: [&str; 2] = ["A", "B"];

impl Step {
    fn slot(self) -> usize {
        match self {
            Step::R(s) | Step::W(s) => s,
        }
    }
    fn write(self) -> bool {
        matches!(self, Step::W(_))
    }
    fn to_s(self) -> String {
        match self {
            Step::R(s) => format!("read({})", SL[s]),
            Step::W(s) => format!("write({})", SL[s]),
        }
    }
    fn from_s(s: &str) -> Option<Step> {
        let slot = |x: &str| SL.iter().position(|n| *n == x);
        if let Some(r) = s.strip_prefix("read(") {
            return Some(Step::R(slot(r.trim_end_matches(')'))?));
        }
        if let Some(r) = s.strip_prefix("write(") {
            return Some(Step::W(slot(r.trim_end_matches(')'))?));
        }
        None
    }
}

impl Ev {
    fn to_s(self) -> String {
        match self {
            Ev::Rd(s) => format!("make-readable({})", SL[s]),
            Ev::Wr(s) => format!("make-writable({})", SL[s]),
            Ev::Reopen(s) => format!("close+reopen({})", SL[s]),
            Ev::Fault => "next-poll-fails(EINTR)".into(),
            Ev::Idle => "let-15ms-pass".into(),
        }
    }
    fn from_s(s: &str) -> Option<Ev> {
        let slot = |x: &str| SL.iter().position(|n| *n == x);
        let arg = |p: &str| s.strip_prefix(p).map(|r| r.trim_end_matches(')').to_string());
        if let Some(a) = arg("make-readable(") {
            return Some(Ev::Rd(slot(&a)?));
        }
        if let Some(a) = arg("make-writable(") {
            return Some(Ev::Wr(slot(&a)?));
        }
        if let Some(a) = arg("close+reopen(") {
            return Some(Ev::Reopen(slot(&a)?));
        }
        match s {
            "next-poll-fails(EINTR)" => Some(Ev::Fault),
            "let-15ms-pass" => Some(Ev::Idle),
            _ => None,
        }
    }
}

/// what happened to descriptor number A before the coroutines start (non-initial start states)
const PRE: [&str; 4] = ["nothing", "A had read+write interest, was closed through the hook and its number reused", "A had read interest, was closed through the hook and its number reused", "A had write interest, was closed through the hook and its number reused"];

#[derive(Clone, Debug, Hash)]
pub struct Case {
    progs: Vec<Vec<Step>>,
    evs: Vec<Ev>,
    pre: usize,
    /// both descriptors carry SO_RCVTIMEO = SO_SNDTIMEO = 25 ms: a call that is not served in time
    /// gives up with -1 and its coroutine moves on
    timed: bool,
}

impl Case {
    fn to_json(&self) -> Value {
        json!({"coroutines": self.progs.iter().map(|p| p.iter().map(|s| s.to_s()).collect::<Vec<_>>()).collect::<Vec<_>>(), "driver": self.evs.iter().map(|e| e.to_s()).collect::<Vec<_>>(), "before": PRE[self.pre], "socket_timeouts_25ms": self.timed})
    }
    fn from_json(v: &Value) -> Option<Case> {
        Some(Case {
            progs: v.get("coroutines")?.as_array()?.iter().map(|p| p.as_array()?.iter().map(|s| s.as_str().and_then(Step::from_s)).collect::<Option<Vec<_>>>()).collect::<Option<Vec<_>>>()?,
            evs: v.get("driver")?.as_array()?.iter().map(|e| e.as_str().and_then(Ev::from_s)).collect::<Option<Vec<_>>>()?,
            pre: v.get("before").and_then(Value::as_str).and_then(|b| PRE.iter().position(|x| *x == b)).unwrap_or(0),
            timed: v.get("socket_timeouts_25ms").and_then(Value::as_bool).unwrap_or(false),
        })
    }
    fn digest(&self) -> u64 {
        let mut h = DefaultHasher::new();
        self.hash(&mut h);
        h.finish()
    }
}

#[derive(Clone, Debug)]
struct StepRec {
    step: Step,
    start_t: u64,
    start_seq: u64,
    end_t: u64,
    end_seq: u64,
    ret: isize,
    ready_at_start: bool,
}

#[derive(Clone, Debug)]
struct ReadyRec {
    slot: usize,
    write: bool,
    t: u64,
    seq: u64,
    blocked: Vec<usize>,
    /// other coroutines blocked on the same slot in the other direction
    blocked_other_dir: Vec<usize>,
    reopened: bool,
    after_fault: bool,
}

#[derive(Clone, Debug)]
struct Hit {
    co: usize,
    step: Step,
    own_ready: bool,
    t: u64,
}

#[derive(Default)]
struct St {
    seq: u64,
    fds: [i32; 2],
    cur: Vec<Option<(Step, u64, u64, bool)>>,
    done: Vec<Vec<StepRec>>,
    tokens: BTreeMap<u64, usize>,
    hits: Vec<Hit>,
    faults_pending: u32,
    faults_consumed: u32,
    avail: [i64; 2],
}

thread_local! {
    static ST: RefCell<St> = RefCell::new(St::default());
}

fn tick() -> u64 {
    ST.with(|s| {
        let mut s = s.borrow_mut();
        s.seq += 1;
        s.seq
    })
}

fn fd_ready(fd: i32, write: bool) -> bool {
    let mut p = libc::pollfd { fd, events: if write { libc::POLLOUT } else { libc::POLLIN }, revents: 0 };
    let r = unsafe { libc::poll(&mut p, 1, 0) };
    r == 1 && (p.revents & (if write { libc::POLLOUT } else { libc::POLLIN })) != 0
}

fn observe(kind: &'static str, token: u64, hit: u64) {
    if kind != "loop_resume" || hit != 1 {
        return;
    }
    let info = ST.with(|s| {
        let s = s.borrow();
        s.tokens.get(&token).and_then(|j| s.cur[*j].map(|(st, ..)| (*j, st, s.fds[st.slot()])))
    });
    if let Some((j, step, fd)) = info {
        let own_ready = fd_ready(fd, step.write());
        let t = now() - T0;
        ST.with(|s| s.borrow_mut().hits.push(Hit { co: j, step, own_ready, t }));
    }
}

fn choice(site: &'static str, _n: usize) -> usize {
    if site != "select:poll" {
        return 0;
    }
    ST.with(|s| {
        let mut s = s.borrow_mut();
        if s.faults_pending > 0 {
            s.faults_pending -= 1;
            s.faults_consumed += 1;
            1
        } else {
            0
        }
    })
}

/// a fresh stream socket pair with `slot` at number `num` and its peer at number `pnum`
unsafe fn open_pair(num: i32, pnum: i32, timed: bool) {
    let mut sv = [0; 2];
    assert_eq!(0, libc::socketpair(libc::AF_UNIX, libc::SOCK_STREAM, 0, sv.as_mut_ptr()));
    // both ends out of the way of the two target numbers first
    let a = libc::fcntl(sv[0], libc::F_DUPFD, 3000);
    let b = libc::fcntl(sv[1], libc::F_DUPFD, 3000);
    assert!(a >= 0 && b >= 0);
    libc::close(sv[0]);
    libc::close(sv[1]);
    assert_eq!(num, libc::dup2(a, num));
    assert_eq!(pnum, libc::dup2(b, pnum));
    libc::close(a);
    libc::close(b);
    let small: libc::c_int = 2048;
    assert_eq!(0, libc::setsockopt(num, libc::SOL_SOCKET, libc::SO_SNDBUF, std::ptr::from_ref(&small).cast(), 4));
    let fl = libc::fcntl(pnum, libc::F_GETFL);
    libc::fcntl(pnum, libc::F_SETFL, fl | libc::O_NONBLOCK);
    if timed {
        let tv = libc::timeval { tv_sec: 0, tv_usec: 25_000 };
        for name in [libc::SO_RCVTIMEO, libc::SO_SNDTIMEO] {
            assert_eq!(0, libc::setsockopt(num, libc::SOL_SOCKET, name, std::ptr::from_ref(&tv).cast(), size_of::<libc::timeval>() as u32));
        }
    }
}

fn fill(fd: i32) {
    let buf = [0x55u8; 512];
    for _ in 0..10_000 {
        let r = unsafe { libc::send(fd, buf.as_ptr().cast(), buf.len(), libc::MSG_DONTWAIT) };
        if r < 0 {
            return;
        }
    }
    panic!("the socket never filled up");
}

fn drain(pfd: i32) {
    let mut buf = [0u8; 4096];
    loop {
        let r = unsafe { libc::recv(pfd, buf.as_mut_ptr().cast(), buf.len(), libc::MSG_DONTWAIT) };
        if r <= 0 {
            return;
        }
    }
}

#[derive(Debug)]
pub struct Viol {
    clause: String,
    class: String,
    detail: String,
}

/// run one case on the calling (fresh) thread and judge it
pub fn run_case(c: &Case) -> (Vec<Viol>, BTreeMap<String, u64>) {
    let dg = c.digest();
    let base = 400 + 4 * ((dg % 600) as i32);
    let fds = [base, base + 1];
    let peers = [base + 2, base + 3];
    open_coroutine_core::verif::clock_set(T0);
    open_coroutine_core::verif::set_observe_hook(Some(observe));
    open_coroutine_core::verif::set_choice_hook(Some(choice));
    unsafe {
        open_pair(fds[0], peers[0], c.timed);
        open_pair(fds[1], peers[1], c.timed);
    }
    let n = c.progs.len();
    ST.with(|s| *s.borrow_mut() = St { fds, cur: vec![None; n], done: vec![Vec::new(); n], ..St::default() });
    let mut lp = SyncLoop::new(&format!("c20s-loop-{dg:x}"), 128 * 1024, 0, 4, 0).expect("loop");
    lp.enter();
    if c.pre > 0 {
        if c.pre == 1 || c.pre == 2 {
            let _ = lp.add_read_event(fds[0]);
        }
        if c.pre == 1 || c.pre == 3 {
            let _ = lp.add_write_event(fds[0]);
        }
        let _ = sc::close(None, fds[0]);
        unsafe {
            libc::close(peers[0]);
            open_pair(fds[0], peers[0], c.timed);
        }
    }
    for (j, prog) in c.progs.iter().enumerate() {
        let prog = prog.clone();
        let co: SchedulableCoroutine<'static> = open_coroutine_core::co!(
            Some(format!("c20s-{dg:x}-{j}")),
            move |_: &Suspender<(), ()>, ()| {
                for step in &prog {
                    let fd = fds[step.slot()];
                    if step.write() {
                        fill(fd);
                    }
                    let ready = fd_ready(fd, step.write());
                    let (t, q) = (now() - T0, tick());
                    ST.with(|s| s.borrow_mut().cur[j] = Some((*step, t, q, ready)));
                    let mut b = [0x77u8; 1];
                    let r = if step.write() { sc::write(None, fd, b.as_ptr().cast(), 1) } else { sc::read(None, fd, b.as_mut_ptr().cast(), 1) };
                    let (t2, q2) = (now() - T0, tick());
                    ST.with(|s| {
                        let mut s = s.borrow_mut();
                        if !step.write() && r == 1 {
                            s.avail[step.slot()] -= 1;
                        }
                        s.cur[j] = None;
                        s.done[j].push(StepRec { step: *step, start_t: t, start_seq: q, end_t: t2, end_seq: q2, ret: r, ready_at_start: ready });
                    });
                }
                Some(j)
            },
            Some(128 * 1024)
        )
        .expect("coroutine");
        let id = lp.pool().submit_raw_co(co).expect("submit");
        ST.with(|s| s.borrow_mut().tokens.insert(id, j));
    }
    let turn = |lp: &mut SyncLoop| {
        let _ = lp.wait_event(Some(Duration::from_millis(3)));
    };
    turn(&mut lp);
    turn(&mut lp);
    let mut readies: Vec<ReadyRec> = Vec::new();
    let mut reopened = [false, false];
    let mut faulted = false;
    let mut skipped = 0u64;
    let mut applied_reopen = 0u64;
    for ev in &c.evs {
        match *ev {
            Ev::Rd(s) | Ev::Wr(s) => {
                let write = matches!(ev, Ev::Wr(_));
                let (blocked, other): (Vec<usize>, Vec<usize>) = ST.with(|st| {
                    let st = st.borrow();
                    let f = |w: bool| st.cur.iter().enumerate().filter(|(_, c)| c.is_some_and(|(x, ..)| x.slot() == s && x.write() == w)).map(|(j, _)| j).collect::<Vec<_>>();
                    (f(write), f(!write))
                });
                let was_ready = fd_ready(fds[s], write);
                if write {
                    drain(peers[s]);
                } else {
                    let b = [9u8];
                    assert_eq!(1, unsafe { libc::write(peers[s], b.as_ptr().cast(), 1) });
                    ST.with(|st| st.borrow_mut().avail[s] += 1);
                }
                if !was_ready {
                    readies.push(ReadyRec { slot: s, write, t: now() - T0, seq: tick(), blocked, blocked_other_dir: other, reopened: reopened[s], after_fault: faulted });
                }
                turn(&mut lp);
                turn(&mut lp);
            }
            Ev::Reopen(s) => {
                let busy = ST.with(|st| st.borrow().cur.iter().any(|c| c.is_some_and(|(x, ..)| x.slot() == s)));
                if busy {
                    skipped += 1;
                } else {
                    let _ = sc::close(None, fds[s]);
                    unsafe {
                        libc::close(peers[s]);
                        open_pair(fds[s], peers[s], c.timed);
                    }
                    ST.with(|st| st.borrow_mut().avail[s] = 0);
                    reopened[s] = true;
                    applied_reopen += 1;
                    let _ = tick();
                }
                turn(&mut lp);
            }
            Ev::Fault => {
                ST.with(|st| st.borrow_mut().faults_pending = 1);
                faulted = true;
                turn(&mut lp);
            }
            Ev::Idle => {
                for _ in 0..5 {
                    turn(&mut lp);
                }
            }
        }
    }
    for _ in 0..9 {
        turn(&mut lp);
    }
    let st = ST.with(|s| std::mem::take(&mut *s.borrow_mut()));
    // leave nothing behind in the process-wide interest records
    for s in 0..2 {
        let _ = lp.del_event(fds[s]);
        let _ = sc::close(None, fds[s]);
        unsafe { libc::close(peers[s]) };
    }
    let ep = lp.selector_fd();
    lp.leave();
    lp.forget();
    unsafe { libc::close(ep) };
    open_coroutine_core::verif::set_observe_hook(None);
    open_coroutine_core::verif::set_choice_hook(None);

    if std::env::var_os("SEQX_VERBOSE").is_some() {
        crate::runner::child_emit(json!({"t":"debug","done": format!("{:?}", st.done), "hits": format!("{:?}", st.hits), "readies": format!("{readies:?}"), "cur": format!("{:?}", st.cur)}));
    }
    // ------------------------------------------------------------------ judge
    let mut viols: Vec<Viol> = Vec::new();
    let mut wit: BTreeMap<String, u64> = BTreeMap::new();
    let mut w = |k: &str, n: u64| *wit.entry(k.to_string()).or_insert(0) += n;
    let users_of = |slot: usize, before_seq: u64, except: &[usize]| -> bool {
        (0..n).any(|j| !except.contains(&j) && (st.done[j].iter().any(|r| r.step.slot() == slot && r.start_seq < before_seq) || st.cur[j].is_some_and(|(x, _, q, _)| x.slot() == slot && q < before_seq)))
    };
    // the step of coroutine j that was in progress at sequence number q
    let step_at = |j: usize, q: u64| -> Option<(Step, u64, Option<u64>)> {
        for r in &st.done[j] {
            if r.start_seq < q && q < r.end_seq {
                return Some((r.step, r.start_t, Some(r.end_t)));
            }
        }
        st.cur[j].and_then(|(x, t, sq, _)| if sq < q { Some((x, t, None)) } else { None })
    };
    for r in &readies {
        if r.blocked.is_empty() {
            continue;
        }
        let ends: Vec<Option<u64>> = r.blocked.iter().map(|j| step_at(*j, r.seq).and_then(|x| x.2)).collect();
        if ends.iter().any(|e| *e == Some(r.t)) {
            w("woken_at_the_readiness_instant", 1);
            continue;
        }
        let several = r.blocked.len() > 1 || !r.blocked_other_dir.is_empty();
        let mut class = if several {
            "several-coroutines-blocked-on-the-descriptor".to_string()
        } else if users_of(r.slot, r.seq, &r.blocked) {
            "descriptor-used-by-another-coroutine-earlier".to_string()
        } else {
            "sole-user-of-the-descriptor".to_string()
        };
        if r.reopened {
            class.push_str(":descriptor-number-reused");
        }
        if r.after_fault {
            class.push_str(":after-a-failed-poll");
        }
        let what = if r.write { "writable" } else { "readable" };
        viols.push(Viol { clause: "resumed-on-the-readiness-event".into(), class,
            detail: format!("descriptor {} became {what} at {}ns while coroutine(s) {:?} were blocked on it; their calls returned at {:?} (None = not by the end of the run): nobody was resumed by the readiness event itself", SL[r.slot], r.t, r.blocked, ends) });
        break;
    }
    for h in &st.hits {
        if h.own_ready {
            w("resumes_checked_against_own_descriptor", 1);
            continue;
        }
        let j = h.co;
        let earlier_other = st.done[j].iter().any(|r| r.step.slot() != h.step.slot() || r.step.write() != h.step.write());
        let shares = (0..n).any(|k| k != j && (st.done[k].iter().any(|r| r.step.slot() == h.step.slot()) || st.cur[k].is_some_and(|(x, ..)| x.slot() == h.step.slot())));
        let class = if shares { "coroutine-shares-its-descriptor-with-another" } else if earlier_other { "coroutine-waited-on-something-else-earlier" } else { "no-earlier-wait-no-sharing" };
        viols.push(Viol { clause: "readiness-of-one-descriptor-never-resumes-another-waiter".into(), class: class.into(),
            detail: format!("at {}ns the loop resumed coroutine {j} by a readiness event while it was blocked in {} and descriptor {} was NOT {}: the event belonged to something else", h.t, h.step.to_s(), SL[h.step.slot()], if h.step.write() { "writable" } else { "readable" }) });
        break;
    }
    for (j, d) in st.done.iter().enumerate() {
        for r in d {
            let gave_up_in_time = c.timed && r.ret == -1 && r.end_t - r.start_t >= 25_000_000 && r.end_t - r.start_t <= 25_000_000 + 21_000_000;
            if gave_up_in_time {
                continue;
            }
            if r.ret != 1 {
                viols.push(Viol { clause: "call-returns-one-byte".into(), class: if r.step.write() { "write" } else { "read" }.into(), detail: format!("coroutine {j}: {} returned {}", r.step.to_s(), r.ret) });
            }
            if r.ready_at_start && r.end_t != r.start_t {
                viols.push(Viol { clause: "ready-descriptor-needs-no-wait".into(), class: if r.step.write() { "write" } else { "read" }.into(), detail: format!("coroutine {j}: {} started at {}ns with the descriptor ready and returned at {}ns", r.step.to_s(), r.start_t, r.end_t) });
            }
        }
    }
    if n > 1 {
        w("cases_with_two_coroutines", 1);
    }
    w("calls_that_gave_up_on_their_socket_timeout", st.done.iter().flatten().filter(|r| r.ret == -1).count() as u64);
    w("reopens_applied", applied_reopen);
    w("reopens_skipped_because_a_coroutine_was_blocked_on_the_slot", skipped);
    w("poll_failures_injected", u64::from(st.faults_consumed));
    w("steps_completed", st.done.iter().map(|d| d.len() as u64).sum());
    (viols, wit)
}

fn seqs<T: Copy>(alpha: &[T], min: usize, max: usize) -> Vec<Vec<T>> {
    let mut out: Vec<Vec<T>> = Vec::new();
    let mut level: Vec<Vec<T>> = vec![vec![]];
    if min == 0 {
        out.push(vec![]);
    }
    for d in 1..=max {
        let mut next = Vec::new();
        for s in &level {
            for a in alpha {
                let mut t = s.clone();
                t.push(*a);
                next.push(t);
            }
        }
        if d >= min {
            out.extend(next.iter().cloned());
        }
        level = next;
    }
    out
}

pub fn bounds(tier: &str) -> (usize, usize, usize) {
    // (steps of coroutine 0, steps of coroutine 1, driver events)
    if tier == "thorough" { (3, 2, 4) } else { (2, 1, 3) }
}

pub fn cases(tier: &str) -> Vec<Case> {
    let (l0, l1, e) = bounds(tier);
    let steps = [Step::R(0), Step::R(1), Step::W(0), Step::W(1)];
    let p0: Vec<Vec<Step>> = seqs(&steps, 1, l0).into_iter().filter(|p| p[0].slot() == 0).collect();
    let mut p1: Vec<Vec<Step>> = vec![vec![]];
    p1.extend(seqs(&steps, 1, l1));
    let mut v = Vec::new();
    for a in &p0 {
        for b in &p1 {
            let progs: Vec<Vec<Step>> = if b.is_empty() { vec![a.clone()] } else { vec![a.clone(), b.clone()] };
            let uses = |f: &dyn Fn(&Step) -> bool| progs.iter().flatten().any(f);
            let mut alpha: Vec<Ev> = Vec::new();
            for s in 0..2 {
                if uses(&|x| *x == Step::R(s)) {
                    alpha.push(Ev::Rd(s));
                }
                if uses(&|x| *x == Step::W(s)) {
                    alpha.push(Ev::Wr(s));
                }
                if uses(&|x| x.slot() == s) {
                    alpha.push(Ev::Reopen(s));
                }
            }
            alpha.push(Ev::Fault);
            alpha.push(Ev::Idle);
            for evs in seqs(&alpha, 0, e) {
                // a trailing event nobody can react to adds nothing
                if matches!(evs.last(), Some(Ev::Reopen(_) | Ev::Fault | Ev::Idle)) {
                    continue;
                }
                let evs: Vec<Ev> = evs;
                // non-initial start states for the single-coroutine programs
                if progs.len() == 1 && evs.len() <= 2 {
                    for pre in 1..PRE.len() {
                        v.push(Case { progs: progs.clone(), evs: evs.clone(), pre, timed: false });
                    }
                }
                // with socket timeouts only where time passes: a wait gives up, its coroutine moves on
                if evs.contains(&Ev::Idle) {
                    v.push(Case { progs: progs.clone(), evs: evs.clone(), pre: 0, timed: true });
                }
                v.push(Case { progs: progs.clone(), evs, pre: 0, timed: false });
            }
        }
    }
    v
}

fn exec(c: &Case, em: &mut Emitter) {
    std::panic::set_hook(Box::new(|_| {}));
    open_coroutine_core::verif::clock_enable(T0);
    let (viols, wit) = run_case(c);
    em.emit(json!({"t":"v","viol": viols.iter().map(|v| json!({"clause": v.clause, "class": v.class, "detail": v.detail})).collect::<Vec<_>>(), "wit": wit}));
}

pub fn run(tier: &str, rep: &mut Report) {
    let cs = cases(tier);
    let (l0, l1, e) = bounds(tier);
    rep.bounds = json!({"descriptors": 2, "coroutines": "1..=2", "program_steps": ["read(A|B)", "write(A|B) into a full socket"], "steps_of_coroutine_0": l0, "steps_of_coroutine_1": l1,
        "driver_events": ["make-readable(slot)", "make-writable(slot)", "close+reopen(slot) through the hooked close", "next-poll-fails(EINTR)", "let-15ms-pass"], "driver_sequence_length": format!("0..={e}"),
        "symmetry": "coroutine 0 starts on slot A", "start_states": PRE, "socket_timeouts": "every case whose driver lets time pass also runs with SO_RCVTIMEO = SO_SNDTIMEO = 25 ms on both descriptors", "cases": cs.len()});
    rep.require(&["woken_at_the_readiness_instant", "resumes_checked_against_own_descriptor", "cases_with_two_coroutines", "reopens_applied", "poll_failures_injected", "calls_that_gave_up_on_their_socket_timeout"]);
    for c in cs.iter().step_by((cs.len() / 4).max(1)).take(4) {
        rep.sample(c.to_json());
    }
    let cfg = RunCfg { hang_after: Duration::from_millis(8000), ..RunCfg::default() };
    let budget = Budget::secs(if tier == "thorough" { 2400 } else { 50 });
    sweep(&cs, 64, rep, &cfg, &budget, exec, |c, res: &ChildResult, rep| {
        let replay = || json!({"engine":"seqx","scenario":"ep.seq","case":c.to_json()});
        if !res.exit.ok() {
            rep.violation(&format!("ep.seq/process-survives/{}", res.exit.describe()), format!("{}: the process {}", c.to_json(), res.exit.describe()), replay());
            return;
        }
        let Some(v) = res.last("v") else {
            rep.machinery_errors.push(format!("ep.seq: no verdict record for {}", c.to_json()));
            return;
        };
        let _ = rep.nontrivial.insert(c.digest().to_string());
        for (k, n) in v["wit"].as_object().unwrap() {
            rep.witness_n(k, n.as_u64().unwrap_or(0));
        }
        for x in v["viol"].as_array().unwrap() {
            // a blocking caller that is handed EAGAIN is the blocking-mode property, the rest is C20
            let prop = if x["clause"] == "call-returns-one-byte" { "C18" } else { "C20" };
            rep.violation_for(prop, &format!("ep.seq/{}/{}", x["clause"].as_str().unwrap(), x["class"].as_str().unwrap()), format!("{}: {}", c.to_json(), x["detail"].as_str().unwrap()), replay());
        }
    });
    rep.states = rep.evaluations;
    rep.transitions = rep.evaluations;
}

pub fn replay(v: &Value, em: &mut Emitter) -> bool {
    let Some(c) = v.get("case").and_then(Case::from_json) else { return false };
    em.emit(json!({"t":"case","case":c.to_json()}));
    exec(&c, em);
    true
}
