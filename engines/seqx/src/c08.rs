//! C08 – values and panics cross the coroutine boundary faithfully.
//! Bodies with n in 0..=3 suspend points, payload tuples from a boundary alphabet, ending in a
//! return or a panic (three payload kinds) at any step, with listeners that may panic themselves.
use crate::explore::{sweep, Budget};
use crate::report::Report;
use crate::runner::{ChildResult, Emitter, RunCfg};
use crate::util::state_str;
use open_coroutine_core::common::constants::{CoroutineState, SyscallName, SyscallState};
use open_coroutine_core::coroutine::listener::Listener;
use open_coroutine_core::coroutine::local::CoroutineLocal;
use open_coroutine_core::coroutine::suspender::Suspender;
use open_coroutine_core::coroutine::Coroutine;
use serde_json::{json, Value};
use std::sync::atomic::{AtomicUsize, Ordering};
use std::sync::{Arc, Mutex};

const VALS: [i64; 5] = [0, 1, -1, i64::MAX, i64::MIN];

#[derive(Clone, Debug)]
pub struct Case {
    /// resume arguments, one per resume (n+1)
    args: Vec<i64>,
    /// yielded values, one per suspend point (n)
    yields: Vec<i64>,
    ret: i64,
    /// panic after this many suspends (None = return normally)
    panic_at: Option<usize>,
    /// 0 = &'static str, 1 = formatted String, 2 = non-string payload
    panic_kind: u8,
    /// 0 = no listener, 1 = listener panicking in on_state_changed, 2 = panicking in every callback
    listener: u8,
    /// what another coroutine did on this thread just before: 0 nothing, 1 cancelled itself,
    /// 2 yielded with a delay, 3 yielded a value from inside a syscall state
    pre: u8,
    /// every suspend point is taken from inside a syscall state (value carried by the state)
    sys: bool,
}

impl Case {
    fn to_json(&self) -> Value {
        json!({"args": self.args.iter().map(|x| x.to_string()).collect::<Vec<_>>(),
            "yields": self.yields.iter().map(|x| x.to_string()).collect::<Vec<_>>(),
            "ret": self.ret.to_string(), "panic_at": self.panic_at, "panic_kind": self.panic_kind, "listener": self.listener, "pre": self.pre, "sys": self.sys})
    }
    fn from_json(v: &Value) -> Option<Case> {
        let nums = |k: &str| -> Option<Vec<i64>> {
            v.get(k)?.as_array()?.iter().map(|x| x.as_str()?.parse().ok()).collect()
        };
        Some(Case {
            args: nums("args")?,
            yields: nums("yields")?,
            ret: v.get("ret")?.as_str()?.parse().ok()?,
            panic_at: v.get("panic_at").and_then(Value::as_u64).map(|x| x as usize),
            panic_kind: v.get("panic_kind")?.as_u64()? as u8,
            listener: v.get("listener")?.as_u64()? as u8,
            pre: v.get("pre").and_then(Value::as_u64).unwrap_or(0) as u8,
            sys: v.get("sys").and_then(Value::as_bool).unwrap_or(false),
        })
    }
}

#[derive(Debug)]
struct Counting {
    mode: u8,
    complete: Arc<AtomicUsize>,
    error: Arc<AtomicUsize>,
}

impl Listener<i64, i64> for Counting {
    fn on_state_changed(&self, _: &CoroutineLocal, _: CoroutineState<i64, i64>, _: CoroutineState<i64, i64>) {
        if self.mode >= 1 {
            panic!("listener panics in on_state_changed");
        }
    }
    fn on_running(&self, _: &CoroutineLocal, _: CoroutineState<i64, i64>) {
        if self.mode >= 2 {
            panic!("listener panics in on_running");
        }
    }
    fn on_suspend(&self, _: &CoroutineLocal, _: CoroutineState<i64, i64>) {
        if self.mode >= 2 {
            panic!("listener panics in on_suspend");
        }
    }
    fn on_complete(&self, _: &CoroutineLocal, _: CoroutineState<i64, i64>, _: i64) {
        let _ = self.complete.fetch_add(1, Ordering::SeqCst);
        if self.mode >= 2 {
            panic!("listener panics in on_complete");
        }
    }
    fn on_error(&self, _: &CoroutineLocal, _: CoroutineState<i64, i64>, _: &str) {
        let _ = self.error.fetch_add(1, Ordering::SeqCst);
        if self.mode >= 2 {
            panic!("listener panics in on_error");
        }
    }
}

pub const STATIC_MSG: &str = "static panic message";

fn formatted_msg(k: usize) -> String {
    format!("formatted panic message #{k}")
}

type Typed = Coroutine<'static, i64, i64, i64>;

pub fn exec(case: &Case, em: &mut Emitter) {
    std::panic::set_hook(Box::new(|_| {}));
    open_coroutine_core::verif::clock_enable(1000);
    if case.pre > 0 {
        let pre = case.pre;
        let mut other: Typed = Coroutine::new(
            Some("c08-other".to_string()),
            move |s: &Suspender<i64, i64>, _: i64| {
                match pre {
                    1 => s.cancel(),
                    2 => {
                        let _ = s.delay_with(77, std::time::Duration::ZERO);
                    }
                    _ => {
                        let me = Typed::current().expect("current");
                        me.syscall(5, SyscallName::sleep, SyscallState::Executing).expect("enter");
                        me.syscall(6, SyscallName::sleep, SyscallState::Suspend(999)).expect("suspend");
                        let _ = s.until_with(6, 999);
                    }
                }
                0
            },
            Some(64 * 1024),
            None,
        )
        .expect("create other");
        let r = other.resume_with(0);
        em.emit(json!({"t":"pre","state": r.map(|st| state_str(&st)).unwrap_or_else(|e| format!("Err({e})"))}));
        drop(other);
    }
    let received: Arc<Mutex<Vec<i64>>> = Arc::new(Mutex::new(Vec::new()));
    let rec = received.clone();
    let c = case.clone();
    let mut co: Coroutine<'static, i64, i64, i64> = Coroutine::new(
        Some("c08".to_string()),
        move |s: &Suspender<i64, i64>, first: i64| {
            rec.lock().unwrap().push(first);
            let do_panic = |k: usize| {
                match c.panic_kind {
                    0 => panic!("static panic message"),
                    1 => panic!("{}", formatted_msg(k)),
                    _ => std::panic::panic_any(42usize),
                }
            };
            for j in 0..c.yields.len() {
                if c.panic_at == Some(j) {
                    do_panic(j);
                }
                let x = if c.sys {
                    // yield from inside a syscall state: the value travels in the state
                    let me = Typed::current().expect("current");
                    me.syscall(c.yields[j] ^ 1, SyscallName::sleep, SyscallState::Executing).expect("enter syscall");
                    me.syscall(c.yields[j], SyscallName::sleep, SyscallState::Suspend(0)).expect("syscall suspend");
                    let x = s.suspend_with(c.yields[j]);
                    let me = Typed::current().expect("current");
                    me.syscall(c.yields[j], SyscallName::sleep, SyscallState::Executing).expect("syscall executing");
                    me.running().expect("leave syscall");
                    x
                } else {
                    s.suspend_with(c.yields[j])
                };
                rec.lock().unwrap().push(x);
            }
            if c.panic_at == Some(c.yields.len()) {
                do_panic(c.yields.len());
            }
            c.ret
        },
        Some(64 * 1024),
        None,
    )
    .expect("create coroutine");
    let complete = Arc::new(AtomicUsize::new(0));
    let error = Arc::new(AtomicUsize::new(0));
    if case.listener > 0 {
        co.add_listener(Counting { mode: case.listener, complete: complete.clone(), error: error.clone() });
    } else {
        co.add_listener(Counting { mode: 0, complete: complete.clone(), error: error.clone() });
    }
    // one resume per argument, plus one extra resume after the end (terminal state must be sticky)
    for (j, a) in case.args.iter().enumerate() {
        let a = *a;
        if let CoroutineState::Syscall(y, n, SyscallState::Suspend(_)) = co.state() {
            // play the scheduler for a coroutine parked in a syscall state
            co.syscall(y, n, SyscallState::Timeout).expect("timeout transition");
        }
        let r = std::panic::catch_unwind(std::panic::AssertUnwindSafe(|| co.resume_with(a)));
        let s = match r {
            Ok(Ok(st)) => state_str(&st),
            Ok(Err(e)) => format!("Err({e})"),
            Err(_) => "UNWOUND-INTO-CALLER".to_string(),
        };
        em.emit(json!({"t":"resume","j":j,"state":s}));
        if s.starts_with("Complete") || s.starts_with("Error") || s.starts_with("UNWOUND") {
            break;
        }
    }
    let r = std::panic::catch_unwind(std::panic::AssertUnwindSafe(|| co.resume_with(7)));
    let s = match r {
        Ok(Ok(st)) => state_str(&st),
        Ok(Err(e)) => format!("Err({e})"),
        Err(_) => "UNWOUND-INTO-CALLER".to_string(),
    };
    em.emit(json!({"t":"extra","state":s}));
    em.emit(json!({"t":"end","received": received.lock().unwrap().iter().map(|x| x.to_string()).collect::<Vec<_>>(),
        "on_complete": complete.load(Ordering::SeqCst), "on_error": error.load(Ordering::SeqCst)}));
}

pub fn judge(case: &Case, res: &ChildResult, rep: &mut Report) {
    let replay = || json!({"engine":"seqx","scenario":"c08.values","case":case.to_json()});
    let lclass = format!("listener{}", case.listener);
    if !res.exit.ok() {
        rep.violation(
            &format!("c08.values/process-died/{}:{lclass}", res.exit.describe()),
            format!("child {}; records {:?}", res.exit.describe(), res.records),
            replay(),
        );
        return;
    }
    let n = case.yields.len();
    let rs = res.find("resume");
    let end = match res.last("end") {
        Some(e) => e.clone(),
        None => {
            rep.machinery_errors.push("c08: no end record".into());
            return;
        }
    };
    let last_step = case.panic_at.unwrap_or(n);
    // expected result of resume j
    for (j, r) in rs.iter().enumerate() {
        let got = r["state"].as_str().unwrap();
        if got == "UNWOUND-INTO-CALLER" {
            rep.violation(&format!("c08.values/panic-unwound-into-caller/{lclass}"), format!("resume {j} unwound into the caller"), replay());
            return;
        }
        if j < last_step {
            let want = if case.sys { format!("Syscall({},sleep,Suspend(0))", case.yields[j]) } else { format!("Suspend({},0)", case.yields[j]) };
            if got != want {
                rep.violation(&format!("c08.values/yield-value-echo/{lclass}:pre{}:sys{}", case.pre, case.sys), format!("resume {j} reported {got}, expected {want}"), replay());
                return;
            }
        } else if case.panic_at.is_none() {
            let want = format!("Complete({})", case.ret);
            if got != want {
                rep.violation(&format!("c08.values/return-value-reported/{lclass}"), format!("resume {j} reported {got}, expected {want}"), replay());
                return;
            }
        } else {
            let kind = ["static-str", "formatted-string", "non-string"][case.panic_kind as usize];
            if !got.starts_with("Error(") {
                rep.violation(&format!("c08.values/panic-reported-as-error/{kind}"), format!("resume {j} reported {got}, expected Error(..)"), replay());
                return;
            }
            let msg = &got[6..got.len() - 1];
            let want = match case.panic_kind {
                0 => Some(STATIC_MSG.to_string()),
                1 => Some(formatted_msg(last_step)),
                _ => None,
            };
            if let Some(w) = want {
                if msg != w {
                    rep.violation(&format!("c08.values/panic-message-carried/{kind}"), format!("panic!({w:?}) was reported as Error({msg:?})"), replay());
                    return;
                }
            }
            rep.witness("panicking_bodies");
        }
    }
    if rs.len() != last_step + 1 {
        rep.violation(&format!("c08.values/resume-count/{lclass}"), format!("{} resumes were needed, expected {}", rs.len(), last_step + 1), replay());
        return;
    }
    // values received inside = arguments passed, in order
    let recv: Vec<String> = end["received"].as_array().unwrap().iter().map(|x| x.as_str().unwrap().to_string()).collect();
    let want: Vec<String> = case.args.iter().take(last_step + 1).map(|x| x.to_string()).collect();
    if recv != want {
        rep.violation(&format!("c08.values/resume-argument-echo/{lclass}"), format!("body received {recv:?}, caller passed {want:?}"), replay());
        return;
    }
    // the terminal state is sticky and reported exactly once to listeners
    let last = rs.last().unwrap()["state"].as_str().unwrap();
    let extra = res.last("extra").unwrap()["state"].as_str().unwrap();
    if extra != last {
        rep.violation(&format!("c08.values/terminal-state-sticky/{lclass}"), format!("resume after the end reported {extra}, the end was {last}"), replay());
        return;
    }
    let (oc, oe) = (end["on_complete"].as_u64().unwrap(), end["on_error"].as_u64().unwrap());
    let want = if case.panic_at.is_none() { (1, 0) } else { (0, 1) };
    if (oc, oe) != want {
        rep.violation(&format!("c08.values/completion-reported-once/{lclass}"), format!("on_complete x{oc}, on_error x{oe}, expected {want:?}"), replay());
        return;
    }
    if n >= 1 {
        let _ = rep.nontrivial.insert(case.to_json().to_string());
    }
    if case.listener > 0 {
        rep.witness("panicking_listeners");
    }
}

pub fn cases(tier: &str) -> Vec<Case> {
    let mut out = Vec::new();
    let endings = |n: usize| {
        let mut e = vec![(None, 0u8)];
        for k in 0..=n {
            for kind in 0..3u8 {
                e.push((Some(k), kind));
            }
        }
        e
    };
    // tuples over an alphabet: all combinations
    fn tuples(alpha: &[i64], len: usize) -> Vec<Vec<i64>> {
        let mut out = vec![vec![]];
        for _ in 0..len {
            out = out.into_iter().flat_map(|t| alpha.iter().map(move |a| { let mut t = t.clone(); t.push(*a); t })).collect();
        }
        out
    }
    // n = 0 and n = 1: all tuples over the full alphabet, all endings, all listener modes
    for n in 0..=1usize {
        for args in tuples(&VALS, n + 1) {
            for yields in tuples(&VALS, n) {
                for (pa, pk) in endings(n) {
                    for l in 0..3u8 {
                        out.push(Case { args: args.clone(), yields: yields.clone(), ret: args[0].wrapping_neg(), panic_at: pa, panic_kind: pk, listener: l, pre: 0, sys: false });
                    }
                }
            }
        }
    }
    // n = 2: all tuples over the full alphabet, return + formatted panic at each step
    let a2: &[i64] = if tier == "thorough" { &VALS } else { &VALS[..4] };
    for args in tuples(a2, 3) {
        for yields in tuples(a2, 2) {
            out.push(Case { args: args.clone(), yields: yields.clone(), ret: VALS[(args[0].unsigned_abs() % 5) as usize], panic_at: None, panic_kind: 0, listener: 0, pre: 0, sys: false });
        }
    }
    for args in tuples(&VALS[..3], 3) {
        for yields in tuples(&VALS[..3], 2) {
            for (pa, pk) in endings(2).into_iter().skip(1) {
                out.push(Case { args: args.clone(), yields: yields.clone(), ret: 5, panic_at: pa, panic_kind: pk, listener: (pk % 3), pre: 0, sys: false });
            }
        }
    }
    // what another coroutine did on the thread just before, and yields taken inside a syscall state
    for pre in 0..4u8 {
        for sys in [false, true] {
            if pre == 0 && !sys {
                continue;
            }
            for args in tuples(&VALS[..3], 3) {
                for yields in tuples(&VALS[1..4], 2) {
                    out.push(Case { args: args.clone(), yields: yields.clone(), ret: 9, panic_at: None, panic_kind: 0, listener: 0, pre, sys });
                }
            }
            for args in tuples(&VALS, 2) {
                for yields in tuples(&VALS, 1) {
                    for (pa, pk) in endings(1) {
                        out.push(Case { args: args.clone(), yields: yields.clone(), ret: 3, panic_at: pa, panic_kind: pk, listener: pre % 3, pre, sys });
                    }
                }
            }
        }
    }
    // n = 3: three-value alphabet
    let a3: &[i64] = &[0, i64::MAX, i64::MIN];
    for args in tuples(a3, 4) {
        for yields in tuples(a3, 3) {
            out.push(Case { args: args.clone(), yields: yields.clone(), ret: args[3], panic_at: None, panic_kind: 0, listener: 0, pre: 0, sys: false });
        }
    }
    out
}

pub fn run(tier: &str, rep: &mut Report) {
    let cs = cases(tier);
    rep.bounds = json!({"suspend_points":"0..=3","values":VALS.iter().map(|v| v.to_string()).collect::<Vec<_>>(),
        "endings":"return | panic at any step with &'static str / formatted String / non-string payload",
        "listeners":"none | panics in on_state_changed | panics in every callback","cases":cs.len()});
    rep.require(&["panicking_bodies", "panicking_listeners"]);
    for c in cs.iter().step_by((cs.len() / 4).max(1)).take(4) {
        rep.sample(c.to_json());
    }
    let cfg = RunCfg::default();
    let budget = Budget::secs(if tier == "thorough" { 1500 } else { 45 });
    sweep(&cs, 256, rep, &cfg, &budget, exec, judge);
    rep.states = rep.evaluations;
    rep.transitions = cs.iter().map(|c| c.args.len() as u64 + 1).sum();
}

pub fn replay(v: &Value, em: &mut Emitter) -> bool {
    match v.get("case").and_then(Case::from_json) {
        Some(c) => {
            exec(&c, em);
            true
        }
        None => false,
    }
}
