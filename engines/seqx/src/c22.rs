//! C22 – preemption interrupts long-running coroutines, never syscalls (built with the
//! `preemptive` feature).
//! (a) arrival points: for every program over Compute / Yield / SyscallEnter / SyscallExit and every
//!     step boundary, a SIGURG is delivered synchronously to the scheduling thread at that boundary
//!     (pthread_kill(self): the handler runs before the call returns). Running -> suspended and
//!     finished later; Syscall -> untouched; results equal the run without any signal.
//! (c) one live run per configuration binds (a) to the asynchronous path: a busy coroutine and a
//!     sibling under the real monitor thread.
use crate::c07::{check_reports, Recorder, Rep};
use crate::explore::{sweep, Budget};
use crate::report::Report;
use crate::runner::{ChildResult, Emitter, RunCfg};
use crate::util::state_str;
use open_coroutine_core::common::constants::{CoroutineState, SyscallName, SyscallState};
use open_coroutine_core::coroutine::suspender::Suspender;
use open_coroutine_core::scheduler::{SchedulableCoroutine, Scheduler};
use serde_json::{json, Value};
use std::sync::atomic::{AtomicBool, AtomicU64, Ordering};
use std::sync::{Arc, Mutex};
use std::time::{Duration, Instant};

/// the three `...State` steps only re-label the syscall sub-state the coroutine is in (what the hooks do
/// around a wait); they are legal between SyscallEnter and SyscallExit only
pub const STEPS: [&str; 8] = ["Compute", "Yield", "SyscallEnter", "SyscallExit", "SyscallSuspendState", "SyscallCallbackState", "SyscallTimeoutState", "SyscallWait"];

#[derive(Clone, Debug)]
pub struct Case {
    /// programs of 1..2 coroutines
    progs: Vec<Vec<usize>>,
    /// deliver SIGURG to coroutine `.0` before its step `.1`, for every entry (empty = reference run)
    sig: Vec<(usize, usize)>,
    live: bool,
    /// live run no. 2: a coroutine blocked in a plain, restartable kernel call when its slice ends
    live_read: bool,
}

impl Case {
    fn to_json(&self) -> Value {
        json!({"programs": self.progs.iter().map(|p| p.iter().map(|s| STEPS[*s]).collect::<Vec<_>>()).collect::<Vec<_>>(), "signals_before": self.sig.iter().map(|(c, k)| json!({"coroutine": c, "step": k})).collect::<Vec<_>>(), "live": self.live, "live_blocking_read": self.live_read})
    }
    fn from_json(v: &Value) -> Option<Case> {
        Some(Case {
            progs: v.get("programs")?.as_array()?.iter().map(|p| p.as_array().map(|a| a.iter().filter_map(|s| STEPS.iter().position(|x| Some(*x) == s.as_str())).collect())).collect::<Option<Vec<Vec<usize>>>>()?,
            sig: v.get("signals_before").and_then(Value::as_array).map(|a| a.iter().map(|s| (s["coroutine"].as_u64().unwrap_or(0) as usize, s["step"].as_u64().unwrap_or(0) as usize)).collect()).unwrap_or_default(),
            live: v.get("live").and_then(Value::as_bool).unwrap_or(false),
            live_read: v.get("live_blocking_read").and_then(Value::as_bool).unwrap_or(false),
        })
    }
}

fn valid(p: &[usize]) -> bool {
    // SyscallEnter / SyscallExit must alternate properly and the program must end outside a syscall
    let mut in_sys = false;
    for s in p {
        match STEPS[*s] {
            "SyscallEnter" => {
                if in_sys {
                    return false;
                }
                in_sys = true;
            }
            "SyscallExit" => {
                if !in_sys {
                    return false;
                }
                in_sys = false;
            }
            "Yield" if in_sys => return false,
            "SyscallSuspendState" | "SyscallCallbackState" | "SyscallTimeoutState" | "SyscallWait" if !in_sys => return false,
            _ => {}
        }
    }
    !in_sys
}

fn programs(max_len: usize) -> Vec<Vec<usize>> {
    let mut out = vec![vec![]];
    let mut level = vec![vec![]];
    for _ in 0..max_len {
        let mut next = Vec::new();
        for p in &level {
            for s in 0..STEPS.len() {
                let mut q: Vec<usize> = p.clone();
                q.push(s);
                next.push(q);
            }
        }
        out.extend(next.iter().cloned());
        level = next;
    }
    out.into_iter().filter(|p| valid(p)).collect()
}

struct Run {
    results: Vec<(usize, String)>,
    /// per coroutine: (state at the moment of the signal, number of Running->Suspend reports)
    /// (coroutine, the library's state, is the body between SyscallEnter and SyscallExit?)
    state_at_signal: Vec<(usize, String, bool)>,
    suspends: Vec<usize>,
    report_violation: Option<(String, String)>,
}

fn run_once(c: &Case) -> Run {
    let mut sched = Scheduler::new("c22-sched".into(), 128 * 1024);
    let at_signal: Arc<Mutex<Vec<(usize, String, bool)>>> = Arc::new(Mutex::new(Vec::new()));
    let mut reports: Vec<Arc<Mutex<Vec<Rep>>>> = Vec::new();
    let mut ids = Vec::new();
    for (i, prog) in c.progs.iter().enumerate() {
        let (prog, sig, ats) = (prog.clone(), c.sig.clone(), at_signal.clone());
        let mut co: SchedulableCoroutine<'static> = open_coroutine_core::co!(
            Some(format!("c22-{i}")),
            move |s: &Suspender<(), ()>, ()| {
                let mut acc = 17usize + i;
                let mut in_sys = false;
                let me = || SchedulableCoroutine::current().expect("current");
                for (k, st) in prog.iter().enumerate().chain(std::iter::once((prog.len(), &usize::MAX))) {
                    if sig.contains(&(i, k)) {
                        ats.lock().unwrap().push((i, state_str(&me().state()), in_sys));
                        // the preemption signal arrives exactly here
                        unsafe { libc::pthread_kill(libc::pthread_self(), libc::SIGURG) };
                    }
                    if *st == usize::MAX {
                        break;
                    }
                    match STEPS[*st] {
                        "Compute" => acc = acc.wrapping_mul(31).wrapping_add(k),
                        "Yield" => s.suspend(),
                        "SyscallEnter" => {
                            in_sys = true;
                            me().syscall((), SyscallName::read, SyscallState::Executing).expect("enter");
                        }
                        "SyscallWait" => {
                            // what a hooked call does when it has to wait: park in the syscall, come back
                            let t = open_coroutine_core::common::now();
                            me().syscall((), SyscallName::read, SyscallState::Suspend(t)).expect("park");
                            s.until(t);
                        }
                        "SyscallSuspendState" => me().syscall((), SyscallName::read, SyscallState::Suspend(u64::MAX)).expect("sub-state"),
                        "SyscallCallbackState" => me().syscall((), SyscallName::read, SyscallState::Callback).expect("sub-state"),
                        "SyscallTimeoutState" => me().syscall((), SyscallName::read, SyscallState::Timeout).expect("sub-state"),
                        _ => {
                            me().syscall((), SyscallName::read, SyscallState::Executing).expect("back to executing");
                            me().running().expect("exit");
                            in_sys = false;
                        }
                    }
                }
                Some(acc)
            },
            Some(128 * 1024)
        )
        .expect("coroutine");
        let r = Arc::new(Mutex::new(Vec::new()));
        co.add_listener(Recorder(r.clone()));
        reports.push(r);
        ids.push(sched.submit_raw_co(co).expect("submit"));
    }
    let mut results = Vec::new();
    for _ in 0..4 {
        if let Ok(rs) = sched.try_schedule() {
            for (id, r) in rs {
                let who = ids.iter().position(|x| *x == id).unwrap_or(99);
                results.push((who, match r { Ok(v) => format!("Ok({v:?})"), Err(m) => format!("Err({m})") }));
            }
        }
    }
    results.sort();
    let mut report_violation = None;
    let mut suspends = Vec::new();
    for r in &reports {
        let rs = r.lock().unwrap().clone();
        suspends.push(rs.iter().filter(|x| x.kind == "suspend").count());
        let last = rs.iter().rev().find_map(|x| x.new).unwrap_or(CoroutineState::Ready);
        if let Err((cl, d)) = check_reports(&rs, &last) {
            report_violation = Some((cl, d));
        }
    }
    std::mem::forget(sched);
    let state_at_signal = at_signal.lock().unwrap().clone();
    Run { results, state_at_signal, suspends, report_violation }
}

static LIVE_FLAG: AtomicBool = AtomicBool::new(false);
static LIVE_SPINS: AtomicU64 = AtomicU64::new(0);

fn live_run() -> Value {
    // a coroutine that computes without ever yielding, and a sibling that is ready behind it
    let mut sched = Scheduler::new("c22-live".into(), 128 * 1024);
    let t0 = Instant::now();
    let _ = sched.submit_co(move |_, ()| {
        let t = Instant::now();
        while !LIVE_FLAG.load(Ordering::Acquire) && t.elapsed() < Duration::from_secs(5) {
            let _ = LIVE_SPINS.fetch_add(1, Ordering::Relaxed);
        }
        Some(usize::from(LIVE_FLAG.load(Ordering::Acquire)))
    }, None, None).expect("busy");
    let _ = sched.submit_co(move |_, ()| {
        LIVE_FLAG.store(true, Ordering::Release);
        Some(2)
    }, None, None).expect("sibling");
    let mut results = Vec::new();
    while results.len() < 2 && t0.elapsed() < Duration::from_secs(8) {
        if let Ok((_, rs)) = sched.try_timed_schedule(Duration::from_millis(200)) {
            for (_, r) in rs {
                results.push(match r { Ok(v) => format!("Ok({v:?})"), Err(m) => format!("Err({m})") });
            }
        }
    }
    results.sort();
    std::mem::forget(sched);
    // (no wall time in the record: records must be identical when a case is re-executed)
    json!({"results": results})
}

fn live_read_run() -> Value {
    // the coroutine blocks in read(2) on a pipe whose byte arrives after 150 ms; the real monitor
    // preempts it (it is Running) every slice; the interrupted call must simply go on afterwards
    let mut fds = [0; 2];
    assert_eq!(0, unsafe { libc::pipe(fds.as_mut_ptr()) });
    let (rfd, wfd) = (fds[0], fds[1]);
    let helper = std::thread::spawn(move || {
        std::thread::sleep(Duration::from_millis(150));
        let b = [7u8];
        let _ = unsafe { libc::write(wfd, b.as_ptr().cast(), 1) };
    });
    let mut sched = Scheduler::new("c22-live-read".into(), 128 * 1024);
    let _ = sched.submit_co(move |_, ()| {
        let mut b = [0u8; 1];
        let r = unsafe { libc::read(rfd, b.as_mut_ptr().cast(), 1) };
        Some(if r == 1 { 42 } else { 1000 + std::io::Error::last_os_error().raw_os_error().unwrap_or(0) as usize })
    }, None, None).expect("reader");
    let t0 = Instant::now();
    let mut results = Vec::new();
    while results.is_empty() && t0.elapsed() < Duration::from_secs(8) {
        if let Ok((_, rs)) = sched.try_timed_schedule(Duration::from_millis(200)) {
            for (_, r) in rs {
                results.push(match r { Ok(v) => format!("Ok({v:?})"), Err(m) => format!("Err({m})") });
            }
        }
    }
    let _ = helper.join();
    std::mem::forget(sched);
    json!({"results": results})
}

pub fn exec(c: &Case, em: &mut Emitter) {
    if c.live_read {
        em.emit(json!({"t":"live_read","out": live_read_run()}));
        return;
    }
    if c.live {
        em.emit(json!({"t":"live","out": live_run()}));
        return;
    }
    // the arrival-point runs own every signal: under a frozen virtual clock the real monitor thread
    // never finds a coroutine overdue, however long this process is descheduled
    open_coroutine_core::verif::clock_enable(1_700_000_000_000_000_000);
    let reference = run_once(&Case { progs: c.progs.clone(), sig: vec![], live: false, live_read: false });
    let with = run_once(c);
    em.emit(json!({"t":"end","reference": reference.results.iter().map(|(w, r)| json!([w, r])).collect::<Vec<_>>(),
        "with_signal": with.results.iter().map(|(w, r)| json!([w, r])).collect::<Vec<_>>(),
        "state_at_signal": with.state_at_signal.iter().map(|(w, st, sys)| json!([w, st, sys])).collect::<Vec<_>>(), "suspends_reference": reference.suspends, "suspends_with_signal": with.suspends,
        "report_violation": with.report_violation.map(|(c, d)| json!([c, d]))}));
}

pub fn judge(c: &Case, res: &ChildResult, rep: &mut Report) {
    let replay = || json!({"engine":"seqx-pre","scenario":"c22.arrival","case":c.to_json()});
    if !res.exit.ok() {
        rep.violation(&format!("c22.arrival/process-survives/{}", res.exit.describe()), format!("{}: the process {}", c.to_json(), res.exit.describe()), replay());
        return;
    }
    if c.live_read {
        let Some(l) = res.last("live_read") else { return };
        if l["out"]["results"] != json!(["Ok(Some(42))"]) {
            rep.violation("c22.arrival/preemption-never-changes-results/live:blocking-kernel-call", format!("a coroutine blocked in a plain read(2) while the real monitor preempts it: result {} (Ok(Some(42)) = the byte arrived; 1000+n = the call failed with errno n)", l["out"]["results"]), replay());
        } else {
            rep.witness("live_preempted_blocking_call_resumed");
        }
        return;
    }
    if c.live {
        let Some(l) = res.last("live") else { return };
        let out = &l["out"];
        if out["results"] != json!(["Ok(Some(1))", "Ok(Some(2))"]) {
            rep.violation("c22.arrival/busy-coroutine-is-preempted-so-sibling-runs/live", format!("a coroutine that never yields and a ready sibling under the real monitor: results {} (the sibling must run while the busy one is still spinning)", out["results"]), replay());
        } else {
            rep.witness("live_monitor_preemption_seen");
        }
        return;
    }
    let Some(e) = res.last("end") else {
        rep.machinery_errors.push("c22: no end record".into());
        return;
    };
    let _ = rep.nontrivial.insert(c.to_json().to_string());
    if e["reference"] != e["with_signal"] {
        rep.violation("c22.arrival/preemption-never-changes-results/-", format!("{}: results without signal {}, with the signal {}", c.to_json(), e["reference"], e["with_signal"]), replay());
        return;
    }
    if let Some(v) = e["report_violation"].as_array() {
        rep.violation_for("C07", &format!("c22.arrival/{}/under-preemption", v[0].as_str().unwrap()), format!("{}: {}", c.to_json(), v[1].as_str().unwrap()), replay());
        return;
    }
    let hits = e["state_at_signal"].as_array().cloned().unwrap_or_default();
    if hits.len() != c.sig.len() {
        rep.machinery_errors.push(format!("c22: {}: {} of {} signals were delivered", c.to_json(), hits.len(), c.sig.len()));
        return;
    }
    let class = if c.sig.len() > 1 { "second-signal-while-a-preempted-coroutine-is-parked" } else { "-" };
    for who in 0..c.progs.len() {
        // what counts is where the BODY is (between SyscallEnter and SyscallExit or not), not how the
        // library happens to label the coroutine at that moment
        if let Some(h) = hits.iter().find(|h| h[0].as_u64() == Some(who as u64) && h[2] == true && h[1] == "Running") {
            rep.violation("c22.arrival/coroutine-in-syscall-is-never-preempted/labelled-running-inside-a-syscall", format!("{}: coroutine {who} is inside a system call (entered, waited, not left yet) but the runtime has it in state {}: the preemption signal is let through", c.to_json(), h[1]), replay());
            return;
        }
        let running_hits = hits.iter().filter(|h| h[0].as_u64() == Some(who as u64) && h[2] == false).count() as i64;
        let sys_hits: Vec<&str> = hits.iter().filter(|h| h[0].as_u64() == Some(who as u64) && h[2] == true).filter_map(|h| h[1].as_str()).collect();
        let extra = e["suspends_with_signal"][who].as_u64().unwrap_or(0) as i64 - e["suspends_reference"][who].as_u64().unwrap_or(0) as i64;
        if extra != running_hits {
            if extra > running_hits && !sys_hits.is_empty() {
                let sub = sys_hits[0].split(',').last().unwrap_or("").trim_end_matches(')').trim().split('(').next().unwrap_or("").to_string();
                rep.violation(&format!("c22.arrival/coroutine-in-syscall-is-never-preempted/{sub}"), format!("{}: coroutine {who} was hit in state(s) {sys_hits:?} and {running_hits} time(s) while Running; it was suspended {extra} extra time(s)", c.to_json()), replay());
            } else {
                rep.violation(&format!("c22.arrival/running-coroutine-is-suspended-by-the-signal/{class}"), format!("{}: coroutine {who} was hit {running_hits} time(s) while Running and was suspended {extra} extra time(s) (states at the signals: {})", c.to_json(), e["state_at_signal"]), replay());
            }
            return;
        }
        if running_hits > 0 {
            rep.witness("signals_in_running_state");
        }
        if !sys_hits.is_empty() {
            rep.witness("signals_in_syscall_state");
        }
    }
    if c.sig.len() > 1 {
        rep.witness("cases_with_two_signals");
    }
}

pub fn cases(tier: &str) -> Vec<Case> {
    let mut v = vec![Case { progs: vec![], sig: vec![], live: true, live_read: false }, Case { progs: vec![], sig: vec![], live: false, live_read: true }];
    let thorough = tier == "thorough";
    let one = programs(if thorough { 5 } else { 4 });
    for p in &one {
        let points: Vec<(usize, usize)> = (0..=p.len()).map(|k| (0, k)).collect();
        for (x, a) in points.iter().enumerate() {
            v.push(Case { progs: vec![p.clone()], sig: vec![*a], live: false, live_read: false });
            // two signals for the shorter programs
            if p.len() <= (if thorough { 4 } else { 3 }) {
                for b in &points[x + 1..] {
                    v.push(Case { progs: vec![p.clone()], sig: vec![*a, *b], live: false, live_read: false });
                }
            }
        }
    }
    let two = programs(if thorough { 3 } else { 2 });
    for a in &two {
        for b in &two {
            let mut points: Vec<(usize, usize)> = (0..=a.len()).map(|k| (0, k)).collect();
            points.extend((0..=b.len()).map(|k| (1, k)));
            for (x, p) in points.iter().enumerate() {
                v.push(Case { progs: vec![a.clone(), b.clone()], sig: vec![*p], live: false, live_read: false });
                for q in &points[x + 1..] {
                    v.push(Case { progs: vec![a.clone(), b.clone()], sig: vec![*p, *q], live: false, live_read: false });
                }
            }
        }
    }
    v
}

pub fn run(tier: &str, rep: &mut Report) {
    let cs = cases(tier);
    rep.bounds = json!({"program_steps": STEPS, "program_len": if tier == "thorough" { "<=5 (1 coroutine), <=3 (2)" } else { "<=4 (1 coroutine), <=2 (2)" },
        "signal_arrival": "every step boundary of every coroutine and every pair of boundaries (pairs: programs of <= 3 / 4 steps), delivered synchronously with pthread_kill(self)", "cases": cs.len(), "live_runs": 2});
    rep.require(&["signals_in_running_state", "signals_in_syscall_state", "cases_with_two_signals", "live_monitor_preemption_seen", "live_preempted_blocking_call_resumed"]);
    for c in cs.iter().step_by((cs.len() / 4).max(1)).take(4) {
        rep.sample(c.to_json());
    }
    let cfg = RunCfg { hang_after: Duration::from_millis(10_000), ..RunCfg::default() };
    let budget = Budget::secs(if tier == "thorough" { 900 } else { 50 });
    sweep(&cs, 1, rep, &cfg, &budget, exec, judge);
    rep.states = rep.evaluations;
    rep.transitions = rep.evaluations;
}

pub fn replay(v: &Value, em: &mut Emitter) -> bool {
    match v.get("case").and_then(Case::from_json) {
        Some(c) => {
            exec(&c, em);
            true
        }
        None => false,
    }
}
