import hashlib
import json
import os
import subprocess
import sys
import time

ROOT = os.path.abspath(os.path.join(os.path.dirname(os.path.abspath(__file__)), ".."))
OUT = os.path.join(ROOT, "out")
EVID = os.path.join(ROOT, "evidence")

from checks import CHECKS, ENGINES  # noqa: E402


def env_offline():
    e = dict(os.environ)
    e["CARGO_NET_OFFLINE"] = "true"
    e.setdefault("CARGO_TERM_COLOR", "never")
    return e


def log(msg):
    print(msg, file=sys.stderr, flush=True)


def build_engine(name):
    """(Re)build an engine from /repo's current working tree. Returns path of the binary."""
    eng = ENGINES[name]
    env = env_offline()
    env["CARGO_TARGET_DIR"] = os.path.join(ROOT, eng["target"])
    if eng.get("rustflags"):
        env["RUSTFLAGS"] = eng["rustflags"]
    cmd = ["cargo", "build", "--release", "--offline"] + eng.get("args", [])
    t = time.time()
    p = subprocess.run(cmd, cwd=os.path.join(ROOT, eng["dir"]), env=env,
                       stdout=subprocess.PIPE, stderr=subprocess.STDOUT, text=True)
    if p.returncode != 0:
        log(p.stdout[-6000:])
        log(f"[check] MACHINERY: build of engine {name} failed")
        return None
    log(f"[check] engine {name} built in {time.time() - t:.1f}s")
    return os.path.join(ROOT, eng["target"], "release", eng["bin"])


def load_known():
    path = os.path.join(ROOT, "known_findings.json")
    if not os.path.exists(path):
        return []
    with open(path) as f:
        return json.load(f).get("findings", [])


def sig_id(sig):
    return hashlib.sha1(sig.encode()).hexdigest()[:12]


def run_property(pid, tier, seed):
    if pid not in CHECKS:
        log(f"[check] unknown property {pid}")
        return 3
    spec = CHECKS[pid]
    t0 = time.time()
    results = []
    machinery = []
    built = {}
    for part in spec["parts"]:
        eng = part["engine"]
        if eng not in built:
            built[eng] = build_engine(eng)
        binary = built[eng]
        if binary is None:
            return 3
        resdir = os.path.join(OUT, "results", pid)
        os.makedirs(resdir, exist_ok=True)
        for scen in part["scenarios"]:
            if isinstance(scen, dict):
                if tier not in scen.get("tiers", ["quick", "thorough"]):
                    continue
                scen = scen["name"]
            resfile = os.path.join(resdir, f"{scen.replace('/', '_')}.{tier}.json")
            if os.path.exists(resfile):
                os.remove(resfile)
            env = env_offline()
            env["VERIF_SEED"] = str(seed)
            env["VERIF_TIER"] = tier
            cmd = [binary, "run", scen, tier, resfile]
            log(f"[check] {pid}: {' '.join(cmd[1:4])}")
            p = subprocess.run(cmd, cwd=ROOT, env=env, stdout=subprocess.PIPE, stderr=subprocess.PIPE, text=True)
            if p.stderr:
                log(p.stderr.rstrip()[-3000:])
            if p.returncode != 0 or not os.path.exists(resfile):
                machinery.append(f"engine {eng} scenario {scen} exited {p.returncode} without a result")
                continue
            with open(resfile) as f:
                r = json.load(f)
            r["_engine"] = eng
            if ENGINES[eng].get("real_impl") and not r.get("traces_validated_against_impl"):
                # the engine explores the implementation itself: every execution is a trace
                # validated against the implementation
                r["traces_validated_against_impl"] = r.get("evaluations", 0)
            results.append(r)
    return conclude(pid, tier, seed, spec, results, machinery, time.time() - t0)


def conclude(pid, tier, seed, spec, results, machinery, wall):
    known = [k for k in load_known() if k.get("property") == pid]
    known_open = {k["signature"]: k for k in known if k.get("status", "known") == "known"}
    new_violations = []
    known_hits = []
    for r in results:
        for m in r.get("machinery_errors", []):
            machinery.append(f"{r['scenario']}: {m}")
        for w in r.get("missing_witnesses", []):
            machinery.append(f"{r['scenario']}: vacuous run, witness '{w}' is zero")
        for v in r.get("violations", []):
            if v["property"] != pid:
                # a scenario may serve several properties; a clause of another property counts in
                # that property's own check - unless that check does not run this scenario at all:
                # then nobody else would ever report it, and it is reported here, under its own id
                other = CHECKS.get(v["property"], {})
                served = any(r["scenario"] in part.get("scenarios", []) for part in other.get("parts", []))
                if served:
                    continue
                ok = {k["signature"] for k in load_known() if k.get("property") == v["property"] and k.get("status", "known") == "known"}
                if v["signature"] in ok:
                    continue
                new_violations.append((r, v))
                continue
            if v["signature"] in known_open:
                known_hits.append(v)
            else:
                new_violations.append((r, v))
    # evidence
    cov = {
        "evaluations": sum(r.get("evaluations", 0) for r in results),
        "states": sum(r.get("states", 0) for r in results),
        "transitions": sum(r.get("transitions", 0) for r in results),
        "traces_validated_against_impl": sum(r.get("traces_validated_against_impl", 0) for r in results),
        "distinct_nontrivial": sum(r.get("distinct_nontrivial", 0) for r in results),
        "distinct_outcomes": sum(r.get("distinct_outcomes", 0) for r in results),
        "rule": spec["rule"],
        "samples": [s for r in results for s in r.get("samples", [])][:8] or ["(no sample recorded)"],
        "exhaustive": bool(results) and all(r.get("exhaustive", False) for r in results),
        "caps_hit": [c for r in results for c in r.get("caps_hit", [])],
        "scenarios": [
            {
                "engine": r["_engine"],
                "scenario": r["scenario"],
                "evaluations": r.get("evaluations", 0),
                "states": r.get("states", 0),
                "transitions": r.get("transitions", 0),
                "distinct_outcomes": r.get("distinct_outcomes", 0),
                "bounds": r.get("bounds", {}),
                "witnesses": r.get("witnesses", {}),
                "exhaustive": r.get("exhaustive", False),
                "wall_s": round(r.get("wall_s", 0), 2),
                "notes": r.get("notes", []),
            }
            for r in results
        ],
        "known_findings_hit": sorted({v["signature"] for v in known_hits}),
        "machinery_errors": machinery,
    }
    evidence = {
        "property_id": pid,
        "tier": tier,
        "seed": seed,
        "level": "model_checking",
        "coverage": cov,
        "assumptions": spec.get("assumptions", []),
        "wall_s": round(wall, 2),
        "violations": len(new_violations),
    }
    os.makedirs(EVID, exist_ok=True)
    with open(os.path.join(EVID, f"{pid}.json"), "w") as f:
        json.dump(evidence, f, indent=1, sort_keys=True)
        f.write("\n")

    seen = set()
    for v in known_hits:
        if v["signature"] in seen:
            continue
        seen.add(v["signature"])
        k = known_open[v["signature"]]
        print(f"KNOWN-FINDING: property={pid} {k.get('what', v['signature'])} [{v['signature']}]", flush=True)
    rc = 0
    if new_violations:
        rdir = os.path.join(OUT, "replays", pid)
        os.makedirs(rdir, exist_ok=True)
        for r, v in new_violations:
            path = os.path.join(rdir, f"{sig_id(v['signature'])}.json")
            with open(path, "w") as f:
                json.dump({"property": v.get("property", pid), "signature": v["signature"], "detail": v["detail"],
                           "count": v.get("count", 1), "engine": r["_engine"], "replay": v["replay"]}, f, indent=1)
            log(f"[check] {v['signature']} (x{v.get('count', 1)}): {v['detail']}")
            print(f"VIOLATION property={v.get('property', pid)} replay={path}", flush=True)
        rc = 1
    if machinery:
        for m in machinery:
            log(f"[check] MACHINERY: {m[:2000]}")
        if rc == 0:
            rc = 3
    log(f"[check] {pid} {tier}: evaluations={cov['evaluations']} states={cov['states']} "
        f"transitions={cov['transitions']} known={len(seen)} new={len(new_violations)} "
        f"exhaustive={cov['exhaustive']} wall={wall:.1f}s rc={rc}")
    return rc


def replay(path):
    with open(path) as f:
        v = json.load(f)
    eng = v.get("engine") or v.get("replay", {}).get("engine", "seqx")
    if eng not in ENGINES:
        log(f"[check] unknown engine {eng}")
        return 3
    binary = build_engine(eng)
    if binary is None:
        return 3
    print(f"property {v.get('property')} signature {v.get('signature')}")
    print(f"detail: {v.get('detail')}")
    p = subprocess.run([binary, "replay", path], cwd=ROOT, env=env_offline())
    return p.returncode


def main(argv):
    if not argv:
        print(__doc__ or "usage: check <ID> [--tier quick|thorough] | replay <file> | build | list")
        return 3
    if argv[0] == "build":
        ok = True
        for name in ENGINES:
            ok = (build_engine(name) is not None) and ok
        return 0 if ok else 3
    if argv[0] == "list":
        for pid, spec in sorted(CHECKS.items()):
            for part in spec["parts"]:
                print(pid, part["engine"], part["scenarios"])
        return 0
    if argv[0] == "replay":
        return replay(argv[1])
    pid = argv[0]
    tier = os.environ.get("VERIF_TIER", "quick")
    if "--tier" in argv:
        tier = argv[argv.index("--tier") + 1]
    try:
        seed = int(os.environ.get("VERIF_SEED", "0"))
    except ValueError:
        seed = 0
    return run_property(pid, tier, seed)
