#!/usr/bin/env python3
"""Regenerate MANIFEST.json from lib/checks.py (+ manifest_static.json)."""
import json, os, sys
ROOT = os.path.abspath(os.path.join(os.path.dirname(os.path.abspath(__file__)), ".."))
sys.path.insert(0, os.path.join(ROOT, "lib"))
from checks import CHECKS, ENGINES

static = json.load(open(os.path.join(ROOT, "lib", "manifest_static.json")))
props = [json.loads(l)["id"] for l in open(os.path.join(ROOT, "properties.jsonl"))]
m = {
    "version": 1,
    "setup_cmd": "bin/check build",
    "hooks": static["hooks"],
    "engines": [],
    "checks": [],
    "notes": static.get("notes", ""),
    "not_applicable": [],
}
for name, e in ENGINES.items():
    serves = sorted(p for p, c in CHECKS.items() if any(part["engine"] == name for part in c["parts"]))
    m["engines"].append({"name": name, "path": e["dir"], "serves_properties": serves, "kind_free_text": e.get("kind", "")})
for p in props:
    if p in CHECKS:
        c = CHECKS[p]
        m["checks"].append({
            "property_id": p,
            "quick_cmd": f"bin/check {p} --tier quick",
            "thorough_cmd": f"bin/check {p} --tier thorough",
            "evidence_file": f"evidence/{p}.json",
            "replay_cmd_template": "bin/check replay {path}",
            "engine": "+".join(sorted({part["engine"] for part in c["parts"]})),
            "level_claimed": {"category": "model_checking", "text": c["level_text"], "design_ref": c.get("design_ref", "DESIGN.md §5")},
            "level_note": c["level_note"],
            "technique": c["technique"],
        })
    else:
        m["not_applicable"].append({"property_id": p, "reason": static.get("not_applicable", {}).get(p, "check not built yet (work in progress; the design in DESIGN.md §5 applies)")})
json.dump(m, open(os.path.join(ROOT, "MANIFEST.json"), "w"), indent=1)
print("MANIFEST.json:", len(m["checks"]), "checks,", len(m["not_applicable"]), "not applicable")
