"""Property -> engines/scenarios table (the single place that says what decides what)."""

ENGINES = {
    "seqx": {"dir": "engines/seqx", "target": "target-seqx", "bin": "seqx", "args": []},
}

REAL = "every trace is executed on the real open-coroutine-core crate (built from /repo with --features verif) in a freshly forked child"

CHECKS = {
    "C09": {
        "parts": [{"engine": "seqx", "scenarios": ["c09.seq"]}],
        "rule": "all programs over {Suspend,Delay0,Until,Cancel,SysYield,SysCancel} up to the stated length for 1..3 coroutines x all resume interleavings; non-trivial = case with >= 2 coroutines (distinct by programs+order)",
        "assumptions": [REAL, "virtual clock fixed at t=1000ns so that every requested timestamp is due"],
    },
}
