"""Property -> engines/scenarios table (the single place that says what decides what)."""

ENGINES = {
    "seqx": {"dir": "engines/seqx", "target": "target-seqx", "bin": "seqx", "args": [], "real_impl": True,
             "kind": "explicit-state / bounded-exhaustive exploration of the real crate; every trace runs in a freshly forked child (or on a fresh thread of one, where no process-global state is involved)"},
}

ENGINES["qsx"] = {"dir": "engines/qx", "target": "target-qsx", "bin": "qx", "args": [],
    "kind": "sequential explicit-state search over the repository's queue source text (imported by build.rs) running on inspecting wrappers of the real st3/crossbeam types; explored histories are replayed on the real crate (conformance)"}
ENGINES["loomq"] = {"dir": "engines/qx", "target": "target-loomq", "bin": "qx", "args": ["--no-default-features", "--features", "loomq"], "rustflags": "--cfg st3_loom", "real_impl": True,
    "kind": "loom: all interleavings up to a preemption bound of the repository's queue / bean-factory source text; real st3 built with --cfg st3_loom; crossbeam/dashmap replaced by linearizable shims on loom::sync::Mutex"}

def qsx(*scenarios):
    return {"engine": "qsx", "scenarios": list(scenarios)}

def loomq(*scenarios):
    return {"engine": "loomq", "scenarios": list(scenarios)}

IMPORT = "the queue / bean-factory logic explored is the repository's own source text (only `use` lines, the random draw and one static are rewritten by engines/qx/build.rs, which fails loudly if an expected line is missing)"
SHIMS = "crossbeam-deque Injector, crossbeam-skiplist SkipMap and dashmap are trusted to be linearizable (replaced by Mutex-based shims under loom); st3 is the real crate under loom"

REAL = "every trace is executed on the real open-coroutine-core crate (built from /repo's working tree with --features verif)"
CLOCK = "time is a virtual clock owned by the harness (hook in common::now and in the runtime's own blocking primitives)"

def seqx(*scenarios):
    return {"engine": "seqx", "scenarios": list(scenarios)}

CHECKS = {
    "C07": {
        "parts": [seqx("c07.raw", "c10.sched")],
        "design_ref": "DESIGN.md §5 C07",
        "technique": "explicit-state search over (coroutine program x driver history) on the real coroutine, dedup on (state, pc, clock); recording-listener oracle against the documented graph",
        "level_text": "every reachable (state, pc, clock) of every program up to the bound is visited on the real Coroutine/Scheduler and the complete listener report list is checked in each; bounded model checking of the implementation itself",
        "level_note": "bounds: program length, driver depth (printed in evidence). Programs that return while still in a Syscall state are treated as ill-formed and pruned.",
        "rule": "BFS per program over driver ops {Resume,Advance,Running,SysTimeout,SysCallback,SysExec} (raw) and {Pass,Advance,Cancel} (scheduler); a state is non-trivial if the program has >= 2 steps / >= 2 coroutines",
        "assumptions": [REAL, CLOCK],
    },
    "C08": {
        "parts": [seqx("c08.values")],
        "design_ref": "DESIGN.md §5 C08",
        "technique": "bounded-exhaustive enumeration of bodies (0..3 suspend points) x payload tuples x endings x listener modes on the real typed coroutine",
        "level_text": "all payload tuples over a boundary alphabet for bodies with up to 3 suspend points are executed on the real coroutine; value echo in both directions, completion-once and panic message are checked for each",
        "level_note": "value alphabet {0,1,-1,i64::MAX,i64::MIN}; n=3 uses a 3-value alphabet",
        "rule": "cases = (args tuple, yields tuple, return | panic at step k with payload kind, listener mode); non-trivial = at least one suspend point",
        "assumptions": [REAL],
    },
    "C09": {
        "parts": [seqx("c09.seq")],
        "design_ref": "DESIGN.md §5 C09",
        "technique": "bounded-exhaustive enumeration of 1..3 coroutine programs x all resume interleavings on one thread",
        "level_text": "every program tuple up to the bound under every resume interleaving is executed on the real coroutines; the state reported by each resume is compared with what that yield requested",
        "level_note": "bounds printed in evidence; a cancel requested from inside a syscall state may be reported either way for the requester itself",
        "rule": "all programs over {Suspend,Delay0,Until,Cancel,SysYield,SysCancel} up to the stated length for 1..3 coroutines x all resume interleavings; non-trivial = case with >= 2 coroutines (distinct by programs+order)",
        "assumptions": [REAL, "virtual clock fixed at t=1000ns so that every requested timestamp is due"],
    },
    "C10": {
        "parts": [seqx("c10.sched")],
        "design_ref": "DESIGN.md §5 C10",
        "technique": "explicit-state search over driver histories {Pass,Advance,Cancel} per configuration of 1..3 coroutine programs on the real Scheduler under a virtual clock, each history driven to quiescence",
        "level_text": "every distinct observable scheduler state reachable within the depth bound is visited on the real Scheduler; exactly-once results, no early resume, first-pass-after-due and cancel isolation are checked in every state and at quiescence",
        "level_note": "bounds printed in evidence; one scheduler, one thread",
        "rule": "BFS with dedup on per-coroutine (steps executed, pending wake offset, cancelled, finished); non-trivial = configuration with >= 2 coroutines",
        "assumptions": [REAL, CLOCK],
    },
    "C25": {
        "parts": [seqx("c25.local")],
        "design_ref": "DESIGN.md §5 C25",
        "technique": "exhaustive enumeration of all put/get/get_mut/remove histories (2 keys x 2 coroutines) up to the depth bound against a HashMap reference with drop counters",
        "level_text": "all 16^d histories for d <= depth are executed on real coroutines' local storage and compared step by step with a HashMap reference; drop counters are exact after every step and after dropping the coroutines",
        "level_note": "depth 4 (quick) / 5 (thorough); one value type",
        "rule": "all operation sequences over 16 operations up to the depth; every history is distinct",
        "assumptions": [REAL],
    },
    "C28": {
        "parts": [seqx("c28.helpers")],
        "design_ref": "DESIGN.md §5 C28",
        "technique": "small-scope exhaustive enumeration plus boundary alphabet of get_slices / get_timeout_time / socket time limits on the real functions",
        "level_text": "small-scope exhaustive (all totals 0..=64 x slices 1..=8) plus boundary values around u64::MAX ns and timeval extremes; not all of 2^64 (a solver's job, a different family)",
        "level_note": "get_time_limit is reached through the hooked setsockopt + recv/send_time_limit on a fresh socket per value",
        "rule": "one case per (total, slice) / (now, duration) / (tv_sec, tv_usec, option); every case is distinct",
        "assumptions": [REAL, CLOCK],
    },
    "C03": {
        "parts": [loomq("loom.c03"), qsx("q.c03seq")],
        "design_ref": "DESIGN.md §5 C03",
        "technique": "loom exploration of all interleavings (preemption bound 2/3) of 2-3 threads over the imported queue sources + sequential explicit-state search with drain probe",
        "level_text": "every interleaving within the preemption bound of each thread program, for both queue types, ends with: no item twice, popped + drained = pushed, shared len() = items held; plus the same oracle in every sequentially reachable state up to the depth bound",
        "level_note": "2-3 threads, <= 3 operations each; each local queue used by one thread only (the contract the property states)",
        "rule": "loom: one evaluation per explored schedule, distinct = distinct final observation tuples; sequential: BFS with dedup on ground-truth queue contents + reported lengths",
        "assumptions": [IMPORT, SHIMS],
    },
    "C04": {
        "parts": [qsx("q.c04")],
        "design_ref": "DESIGN.md §5 C04",
        "technique": "explicit-state BFS over push/pop/steal histories on the imported queue sources with an operation budget per call (non-termination as a deterministic observation)",
        "level_text": "every distinct reachable queue state (ground-truth contents + cached lengths) up to the depth bound is visited for 2-3 local queues and capacities 1-4, and every operation from it must return within the budget",
        "level_note": "depth 7 (quick) / 9 (thorough); pool-level submission termination is covered by the pool scenarios of C01/C12",
        "rule": "BFS with canonical-state dedup; a state is non-trivial at depth >= 3",
        "assumptions": [IMPORT, "wrappers around the real st3/crossbeam types only count operations and shadow item positions"],
    },
    "C05": {
        "parts": [qsx("q.c05"), seqx("pool.c05")],
        "design_ref": "DESIGN.md §5 C05",
        "technique": "explicit-state BFS with priority-rich alphabets (incl. i64 extremes) on the imported queue sources; oracle on ground-truth container contents",
        "level_text": "in every reachable state, the item a pop returns is checked against the real contents of the queue it came from: no strictly higher-priority item that entered earlier is still waiting, FIFO among equals",
        "level_note": "reading taken: 'that same queue' is the container the item is in now (shared or one local); pool/scheduler start order is covered in C10/C11 scenarios",
        "rule": "BFS with canonical-state dedup; a state is non-trivial at depth >= 3",
        "assumptions": [IMPORT],
    },
    "C06": {
        "parts": [qsx("q.c06")],
        "design_ref": "DESIGN.md §5 C06",
        "technique": "explicit-state BFS (idle-pop oracle in every reachable state) + exhaustive injection of a shared item before pop j for every j < 130 (61-pop bound)",
        "level_text": "every reachable state is probed: a truly empty local queue next to waiting work must obtain it; the 61 bound is checked for every injection point j, both queue types, three relative priorities",
        "level_note": "tick wrap at 2^32 pops is not reachable by enumeration",
        "rule": "BFS with canonical-state dedup + one case per (queue type, refill level, shared priority, injection point)",
        "assumptions": [IMPORT],
    },
    "C26": {
        "parts": [loomq("loom.c26")],
        "design_ref": "DESIGN.md §5 C26",
        "technique": "loom exploration of all interleavings of 2-3 threads' first use of one bean on the imported beans.rs",
        "level_text": "every interleaving (preemption bound 2/3) of concurrent get_or_default / init_bean on one name: all threads and a later lookup see one address",
        "level_note": "dashmap replaced by a Mutex-based shim whose entry().or_insert_with() is atomic like dashmap's",
        "rule": "one evaluation per explored schedule",
        "assumptions": [IMPORT, SHIMS],
    },
    "C01": {
        "parts": [loomq("loom.c01"), seqx("pool.c01")],
        "design_ref": "DESIGN.md §5 C01",
        "technique": "loom exploration of the queue layer the way the runtime uses it (submitters push into a loop's local task queue) + (pool layer: explicit-state search, see C12/C13 scenarios)",
        "level_text": "every interleaving within the preemption bound of submitter / owner / thief programs on one local queue handle; loom's cell-causality checker decides whether st3's single-producer contract is respected",
        "level_note": "queue layer only at the moment",
        "rule": "one evaluation per explored schedule",
        "assumptions": [IMPORT, SHIMS],
    },
    "C02": {
        "parts": [seqx("pool.c02")],
        "design_ref": "DESIGN.md §5 C02",
        "technique": "explicit-state search over pool operation histories {submit, pass, advance, cancel, wait, join, stop} on real CoroutinePools sharing a small-capacity global task queue under a virtual clock; partitioned below every 2-op prefix; every history is followed by a drive to quiescence",
        "level_text": "every distinct observable pool state within the depth bound is visited; a timed wait and a wait without timeout (after driving all pools to quiescence) must return the task's own outcome once it has finished, whichever pool ran it",
        "level_note": "1-2 pools; waiter check/register/block interleavings with the completing loop are not in this scenario",
        "rule": "BFS with dedup on per-pool and per-task observables; non-trivial = state below a 2-op prefix",
        "assumptions": [REAL, CLOCK, "one driver thread plays every event loop (real-thread interleavings of the same windows are the pause-point explorer's job)"],
    },
    "C11": {
        "parts": [seqx("pool.c11")],
        "design_ref": "DESIGN.md §5 C11",
        "technique": "explicit-state search over pool operation histories {submit, pass, advance, cancel, wait, join, stop} on real CoroutinePools sharing a small-capacity global task queue under a virtual clock; partitioned below every 2-op prefix; every history is followed by a drive to quiescence",
        "level_text": "running size is checked against max in every state, against zero at quiescence / after stop, and stop's virtual duration against its timeout, for (min,max,keep-alive) in four configurations",
        "level_note": "pools with min_size >= 1 are driven only through stop() (a single idle worker of such a pool never yields, which is not one of the listed properties)",
        "rule": "BFS with dedup on per-pool and per-task observables",
        "assumptions": [REAL, CLOCK, "one driver thread plays every event loop (real-thread interleavings of the same windows are the pause-point explorer's job)"],
    },
    "C12": {
        "parts": [seqx("pool.c12")],
        "design_ref": "DESIGN.md §5 C12",
        "technique": "explicit-state search over pool operation histories {submit, pass, advance, cancel, wait, join, stop} on real CoroutinePools sharing a small-capacity global task queue under a virtual clock; partitioned below every 2-op prefix; every history is followed by a drive to quiescence",
        "level_text": "state monotonicity after every op, rejection after the first stop, accepted tasks run before stop succeeds, waiters settled; a hang of stop/wait is observed by the fork runner",
        "level_note": "1 pool; waiter || stop on real threads is the pause-point explorer's job",
        "rule": "BFS with dedup on per-pool and per-task observables",
        "assumptions": [REAL, CLOCK, "one driver thread plays every event loop (real-thread interleavings of the same windows are the pause-point explorer's job)"],
    },
    "C13": {
        "parts": [seqx("pool.c13")],
        "design_ref": "DESIGN.md §5 C13",
        "technique": "explicit-state search over pool operation histories {submit, pass, advance, cancel, wait, join, stop} on real CoroutinePools sharing a small-capacity global task queue under a virtual clock; partitioned below every 2-op prefix; every history is followed by a drive to quiescence",
        "level_text": "cancel by the driver, by another task's body and by the task itself, for queued / suspended / running / finished targets; the set of other tasks that run to completion must be unaffected and a waiter of a task cancelled before it starts must be settled",
        "level_note": "max_size 1 and 2; the cross-thread lookup-then-signal race is the pause-point explorer's job",
        "rule": "BFS with dedup on per-pool and per-task observables",
        "assumptions": [REAL, CLOCK, "one driver thread plays every event loop (real-thread interleavings of the same windows are the pause-point explorer's job)"],
    },
    "C16": {
        "parts": [seqx("io.c16")],
        "design_ref": "DESIGN.md §5 C16/C17/C18",
        "technique": "bounded-exhaustive enumeration of scripted kernel answer sequences x buffer/iovec shapes x blocking mode x socket timeout for the ten hooked read/write-family calls; the kernel is an extern \"C\" function handed in as fn_ptr that plays the script, copies bytes through exactly the ranges it is handed and records every request",
        "level_text": "for every case the return value is compared with the bytes the kernel model really moved, the caller's buffers with the stream (reads) / the model's sink with the caller's data (writes), -1 only when nothing moved with the failing errno, zero-length requests return 0",
        "level_note": "stop policy left free (returning after the first transfer is fine); script depth 2-3 (quick) / 3-4 (thorough)",
        "rule": "one case per (call, shape, mode, timeout, script); scripts: all sequences up to the stated depth over the stated answer alphabet; every case is distinct",
        "assumptions": [REAL, CLOCK, "readiness waits are answered through the verif wait seam (no epoll involved); a real socketpair end supplies fstat/fcntl/getsockopt"],
    },
    "C17": {
        "parts": [seqx("io.c17")],
        "design_ref": "DESIGN.md §5 C16/C17/C18",
        "technique": "bounded-exhaustive enumeration of scripted kernel answer sequences x buffer/iovec shapes x blocking mode x socket timeout for the ten hooked read/write-family calls; the kernel is an extern \"C\" function handed in as fn_ptr that plays the script, copies bytes through exactly the ranges it is handed and records every request",
        "level_text": "every vectored request the kernel model is handed is checked: each declared entry inside a caller buffer, covering only bytes not yet transferred, in order; the model reads as many entries as were declared, so a count that does not match the array shows as entries outside the caller's buffers",
        "level_note": "entries beyond a too-short array are arbitrary memory (probed for readability first)",
        "rule": "one case per (call, shape, mode, timeout, script); scripts: all sequences up to the stated depth over the stated answer alphabet; every case is distinct",
        "assumptions": [REAL, CLOCK, "readiness waits are answered through the verif wait seam (no epoll involved); a real socketpair end supplies fstat/fcntl/getsockopt"],
    },
    "C18": {
        "parts": [seqx("io.c18")],
        "design_ref": "DESIGN.md §5 C16/C17/C18",
        "technique": "bounded-exhaustive enumeration of scripted kernel answer sequences x buffer/iovec shapes x blocking mode x socket timeout for the ten hooked read/write-family calls; the kernel is an extern \"C\" function handed in as fn_ptr that plays the script, copies bytes through exactly the ranges it is handed and records every request",
        "level_text": "for every case with O_NONBLOCK set by the caller and a first kernel answer EAGAIN: -1/EAGAIN with zero waits and zero virtual time; F_GETFL after every call on every path equals before",
        "level_note": "connect/accept are not in the enumeration yet",
        "rule": "one case per (call, shape, mode, timeout, script); scripts: all sequences up to the stated depth over the stated answer alphabet; every case is distinct",
        "assumptions": [REAL, CLOCK, "readiness waits are answered through the verif wait seam (no epoll involved); a real socketpair end supplies fstat/fcntl/getsockopt"],
    },
    "C14": {
        "parts": [seqx("c14.timed")],
        "design_ref": "DESIGN.md §5 C14",
        "technique": "bounded-exhaustive enumeration of timeout values x six hooked timed calls x {coroutine on a synchronous loop, plain thread} under a virtual clock with scripted inner functions that report nothing ready; invalid arguments compared differentially with the native libc call",
        "level_text": "for every case: requested <= virtual elapsed <= requested + slack (2 x SLICE + 1 ms, fixed in advance); infinite waits have not returned at a 5 s horizon; return values as native; invalid arguments return what libc returns",
        "level_note": "the plain-thread caller runs on the driver thread with the synchronous loop as its current loop; the dylib interposition layer is not part of the check",
        "rule": "one case per (call, timeout value or invalid argument, caller kind); every case is distinct",
        "assumptions": [REAL, CLOCK],
    },
    "C15": {
        "parts": [seqx("c15.mix")],
        "design_ref": "DESIGN.md §5 C15",
        "technique": "bounded-exhaustive enumeration of all multisets of 1..N task kinds (hooked sleeps of four lengths, hooked read with a late peer write, computing task) on one synchronous loop with real epoll under a virtual clock",
        "level_text": "for every mix: each waiting task's virtual elapsed time is within [own wait, own wait + slack], the makespan is the maximum not the sum, the computing sibling finishes while the others wait, no real time is spent waiting",
        "level_note": "N <= 3 (quick) / 4 (thorough); the dylib interposition layer is outside the check",
        "rule": "one case per multiset of task kinds; every case is distinct",
        "assumptions": [REAL, CLOCK],
    },
    "C19": {
        "parts": [seqx("c19.opts")],
        "design_ref": "DESIGN.md §5 C19",
        "technique": "exhaustive enumeration (no dedup) of all set/io/close/reopen histories over two descriptor slots up to the depth bound, descriptor-number reuse forced with dup2, against a reference model cross-checked with native getsockopt",
        "level_text": "every history up to the depth is executed on the real hooks; the limit a hooked call applies is compared with the socket's current option value after every io step; the process must survive",
        "level_note": "depth 4 (quick) / 5 (thorough, adds a negative tv_sec); histories of one forked child share the process, descriptor numbers rotate and every history closes its sockets through the hook",
        "rule": "all operation sequences; every history is distinct",
        "assumptions": [REAL],
    },
    "C20": {
        "parts": [seqx("ep.wake")],
        "design_ref": "DESIGN.md §5 C20",
        "technique": "bounded-exhaustive enumeration of waiters x readiness instants x id shapes (incl. two ids that collide under a 32-bit fold, found by brute force) x descriptor reuse on a synchronous loop with the real epoll instance; observer on the loop's resume-by-token",
        "level_text": "for every case: the waiter whose descriptor became ready returns at the readiness instant (not at its periodic timeout) after an event carrying its own id was dispatched, and no other waiter is resumed by that event",
        "level_note": "1-3 waiters, one loop; 64-bit id space is covered by shape (colliding / non-colliding), not exhaustively",
        "rule": "one case per (readiness instant per waiter, id shape, reuse); every case is distinct",
        "assumptions": [REAL, CLOCK],
    },
    "C21": {
        "parts": [seqx("ep.interest")],
        "design_ref": "DESIGN.md §5 C21",
        "technique": "exhaustive enumeration (no dedup) of all interest-operation histories over two descriptors up to the depth bound on a synchronous loop with the real epoll instance; the OS-side interest is read from /proc/self/fdinfo/<epoll fd> after every operation",
        "level_text": "every history of wait_read/wait_write/del_read/del_write/del_event/shutdown/close+reopen/fire up to the depth; after each operation epoll's registered interest per descriptor equals the union of the outstanding interests of the reference model",
        "level_note": "reading taken: an interest stays outstanding until removed through the runtime (event delivery does not remove it); one loop",
        "rule": "all operation sequences over 20 operations; every history is distinct",
        "assumptions": [REAL],
    },
}
