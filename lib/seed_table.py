#!/usr/bin/env python3
"""Rewrites the seeded-changes table of DESIGN.md from seeded/*/meta.json and seeded/DETECTION.json."""
import json, os, re
root = os.path.dirname(os.path.dirname(os.path.abspath(__file__)))
det = json.load(open(os.path.join(root, "seeded", "DETECTION.json")))
rows = ["| seed | change | caught by |", "|---|---|---|"]
for x in sorted(os.listdir(os.path.join(root, "seeded"))):
    mp = os.path.join(root, "seeded", x, "meta.json")
    if not os.path.exists(mp):
        continue
    m = json.load(open(mp))
    summ = re.sub(r"\s+", " ", m.get("summary", "")).replace("|", "/")
    short = summ[:170] + ("..." if len(summ) > 170 else "")
    rows.append(f"| {x} | {short} | {det.get(x, x[:3] + ' quick')} |")
p = os.path.join(root, "DESIGN.md")
d = open(p).read()
a = d.index("| seed | change | caught by |")
b = d.index("\n\n", a)
open(p, "w").write(d[:a] + "\n".join(rows) + d[b:])
print(len(rows) - 2, "seeds")
